
type nat =
| O
| S of nat

(** val fst : ('a1 * 'a2) -> 'a1 **)

let fst = function
| (x, _) -> x

(** val snd : ('a1 * 'a2) -> 'a2 **)

let snd = function
| (_, y) -> y

(** val length : 'a1 list -> nat **)

let rec length = function
| [] -> O
| _ :: l' -> S (length l')

(** val app : 'a1 list -> 'a1 list -> 'a1 list **)

let rec app l m =
  match l with
  | [] -> m
  | a :: l1 -> a :: (app l1 m)

type comparison =
| Eq
| Lt
| Gt

(** val compOpp : comparison -> comparison **)

let compOpp = function
| Eq -> Eq
| Lt -> Gt
| Gt -> Lt

module Coq__1 = struct
 (** val add : nat -> nat -> nat **)
 let rec add n0 m =
   match n0 with
   | O -> m
   | S p -> S (add p m)
end
include Coq__1

(** val mul : nat -> nat -> nat **)

let rec mul n0 m =
  match n0 with
  | O -> O
  | S p -> add m (mul p m)

type positive =
| XI of positive
| XO of positive
| XH

type n =
| N0
| Npos of positive

type z =
| Z0
| Zpos of positive
| Zneg of positive

module Pos =
 struct
  type mask =
  | IsNul
  | IsPos of positive
  | IsNeg
 end

module Coq_Pos =
 struct
  (** val succ : positive -> positive **)

  let rec succ = function
  | XI p -> XO (succ p)
  | XO p -> XI p
  | XH -> XO XH

  (** val add : positive -> positive -> positive **)

  let rec add x y =
    match x with
    | XI p ->
      (match y with
       | XI q -> XO (add_carry p q)
       | XO q -> XI (add p q)
       | XH -> XO (succ p))
    | XO p ->
      (match y with
       | XI q -> XI (add p q)
       | XO q -> XO (add p q)
       | XH -> XI p)
    | XH -> (match y with
             | XI q -> XO (succ q)
             | XO q -> XI q
             | XH -> XO XH)

  (** val add_carry : positive -> positive -> positive **)

  and add_carry x y =
    match x with
    | XI p ->
      (match y with
       | XI q -> XI (add_carry p q)
       | XO q -> XO (add_carry p q)
       | XH -> XI (succ p))
    | XO p ->
      (match y with
       | XI q -> XO (add_carry p q)
       | XO q -> XI (add p q)
       | XH -> XO (succ p))
    | XH ->
      (match y with
       | XI q -> XI (succ q)
       | XO q -> XO (succ q)
       | XH -> XI XH)

  (** val pred_double : positive -> positive **)

  let rec pred_double = function
  | XI p -> XI (XO p)
  | XO p -> XI (pred_double p)
  | XH -> XH

  (** val pred_N : positive -> n **)

  let pred_N = function
  | XI p -> Npos (XO p)
  | XO p -> Npos (pred_double p)
  | XH -> N0

  type mask = Pos.mask =
  | IsNul
  | IsPos of positive
  | IsNeg

  (** val succ_double_mask : mask -> mask **)

  let succ_double_mask = function
  | IsNul -> IsPos XH
  | IsPos p -> IsPos (XI p)
  | IsNeg -> IsNeg

  (** val double_mask : mask -> mask **)

  let double_mask = function
  | IsPos p -> IsPos (XO p)
  | x0 -> x0

  (** val double_pred_mask : positive -> mask **)

  let double_pred_mask = function
  | XI p -> IsPos (XO (XO p))
  | XO p -> IsPos (XO (pred_double p))
  | XH -> IsNul

  (** val sub_mask : positive -> positive -> mask **)

  let rec sub_mask x y =
    match x with
    | XI p ->
      (match y with
       | XI q -> double_mask (sub_mask p q)
       | XO q -> succ_double_mask (sub_mask p q)
       | XH -> IsPos (XO p))
    | XO p ->
      (match y with
       | XI q -> succ_double_mask (sub_mask_carry p q)
       | XO q -> double_mask (sub_mask p q)
       | XH -> IsPos (pred_double p))
    | XH -> (match y with
             | XH -> IsNul
             | _ -> IsNeg)

  (** val sub_mask_carry : positive -> positive -> mask **)

  and sub_mask_carry x y =
    match x with
    | XI p ->
      (match y with
       | XI q -> succ_double_mask (sub_mask_carry p q)
       | XO q -> double_mask (sub_mask p q)
       | XH -> IsPos (pred_double p))
    | XO p ->
      (match y with
       | XI q -> double_mask (sub_mask_carry p q)
       | XO q -> succ_double_mask (sub_mask_carry p q)
       | XH -> double_pred_mask p)
    | XH -> IsNeg

  (** val mul : positive -> positive -> positive **)

  let rec mul x y =
    match x with
    | XI p -> add y (XO (mul p y))
    | XO p -> XO (mul p y)
    | XH -> y

  (** val iter : ('a1 -> 'a1) -> 'a1 -> positive -> 'a1 **)

  let rec iter f x = function
  | XI n' -> f (iter f (iter f x n') n')
  | XO n' -> iter f (iter f x n') n'
  | XH -> f x

  (** val pow : positive -> positive -> positive **)

  let pow x =
    iter (mul x) XH

  (** val size : positive -> positive **)

  let rec size = function
  | XI p0 -> succ (size p0)
  | XO p0 -> succ (size p0)
  | XH -> XH

  (** val compare_cont : comparison -> positive -> positive -> comparison **)

  let rec compare_cont r x y =
    match x with
    | XI p ->
      (match y with
       | XI q -> compare_cont r p q
       | XO q -> compare_cont Gt p q
       | XH -> Gt)
    | XO p ->
      (match y with
       | XI q -> compare_cont Lt p q
       | XO q -> compare_cont r p q
       | XH -> Gt)
    | XH -> (match y with
             | XH -> r
             | _ -> Lt)

  (** val compare : positive -> positive -> comparison **)

  let compare =
    compare_cont Eq

  (** val eqb : positive -> positive -> bool **)

  let rec eqb p q =
    match p with
    | XI p0 -> (match q with
                | XI q0 -> eqb p0 q0
                | _ -> false)
    | XO p0 -> (match q with
                | XO q0 -> eqb p0 q0
                | _ -> false)
    | XH -> (match q with
             | XH -> true
             | _ -> false)

  (** val leb : positive -> positive -> bool **)

  let leb x y =
    match compare x y with
    | Gt -> false
    | _ -> true

  (** val sqrtrem_step :
      (positive -> positive) -> (positive -> positive) -> (positive * mask)
      -> positive * mask **)

  let sqrtrem_step f g = function
  | (s, y) ->
    (match y with
     | IsPos r ->
       let s' = XI (XO s) in
       let r' = g (f r) in
       if leb s' r' then ((XI s), (sub_mask r' s')) else ((XO s), (IsPos r'))
     | _ -> ((XO s), (sub_mask (g (f XH)) (XO (XO XH)))))

  (** val sqrtrem : positive -> positive * mask **)

  let rec sqrtrem = function
  | XI p0 ->
    (match p0 with
     | XI p1 -> sqrtrem_step (fun x -> XI x) (fun x -> XI x) (sqrtrem p1)
     | XO p1 -> sqrtrem_step (fun x -> XO x) (fun x -> XI x) (sqrtrem p1)
     | XH -> (XH, (IsPos (XO XH))))
  | XO p0 ->
    (match p0 with
     | XI p1 -> sqrtrem_step (fun x -> XI x) (fun x -> XO x) (sqrtrem p1)
     | XO p1 -> sqrtrem_step (fun x -> XO x) (fun x -> XO x) (sqrtrem p1)
     | XH -> (XH, (IsPos XH)))
  | XH -> (XH, IsNul)

  (** val sqrt : positive -> positive **)

  let sqrt p =
    fst (sqrtrem p)

  (** val coq_Nsucc_double : n -> n **)

  let coq_Nsucc_double = function
  | N0 -> Npos XH
  | Npos p -> Npos (XI p)

  (** val coq_Ndouble : n -> n **)

  let coq_Ndouble = function
  | N0 -> N0
  | Npos p -> Npos (XO p)

  (** val coq_lor : positive -> positive -> positive **)

  let rec coq_lor p q =
    match p with
    | XI p0 ->
      (match q with
       | XI q0 -> XI (coq_lor p0 q0)
       | XO q0 -> XI (coq_lor p0 q0)
       | XH -> p)
    | XO p0 ->
      (match q with
       | XI q0 -> XI (coq_lor p0 q0)
       | XO q0 -> XO (coq_lor p0 q0)
       | XH -> XI p0)
    | XH -> (match q with
             | XO q0 -> XI q0
             | _ -> q)

  (** val coq_land : positive -> positive -> n **)

  let rec coq_land p q =
    match p with
    | XI p0 ->
      (match q with
       | XI q0 -> coq_Nsucc_double (coq_land p0 q0)
       | XO q0 -> coq_Ndouble (coq_land p0 q0)
       | XH -> Npos XH)
    | XO p0 ->
      (match q with
       | XI q0 -> coq_Ndouble (coq_land p0 q0)
       | XO q0 -> coq_Ndouble (coq_land p0 q0)
       | XH -> N0)
    | XH -> (match q with
             | XO _ -> N0
             | _ -> Npos XH)

  (** val coq_lxor : positive -> positive -> n **)

  let rec coq_lxor p q =
    match p with
    | XI p0 ->
      (match q with
       | XI q0 -> coq_Ndouble (coq_lxor p0 q0)
       | XO q0 -> coq_Nsucc_double (coq_lxor p0 q0)
       | XH -> Npos (XO p0))
    | XO p0 ->
      (match q with
       | XI q0 -> coq_Nsucc_double (coq_lxor p0 q0)
       | XO q0 -> coq_Ndouble (coq_lxor p0 q0)
       | XH -> Npos (XI p0))
    | XH ->
      (match q with
       | XI q0 -> Npos (XO q0)
       | XO q0 -> Npos (XI q0)
       | XH -> N0)

  (** val shiftl : positive -> n -> positive **)

  let shiftl p = function
  | N0 -> p
  | Npos n1 -> iter (fun x -> XO x) p n1

  (** val iter_op : ('a1 -> 'a1 -> 'a1) -> positive -> 'a1 -> 'a1 **)

  let rec iter_op op p a =
    match p with
    | XI p0 -> op a (iter_op op p0 (op a a))
    | XO p0 -> iter_op op p0 (op a a)
    | XH -> a

  (** val to_nat : positive -> nat **)

  let to_nat x =
    iter_op Coq__1.add x (S O)

  (** val of_succ_nat : nat -> positive **)

  let rec of_succ_nat = function
  | O -> XH
  | S x -> succ (of_succ_nat x)
 end

module N =
 struct
  (** val succ_double : n -> n **)

  let succ_double = function
  | N0 -> Npos XH
  | Npos p -> Npos (XI p)

  (** val double : n -> n **)

  let double = function
  | N0 -> N0
  | Npos p -> Npos (XO p)

  (** val pred : n -> n **)

  let pred = function
  | N0 -> N0
  | Npos p -> Coq_Pos.pred_N p

  (** val add : n -> n -> n **)

  let add n0 m =
    match n0 with
    | N0 -> m
    | Npos p -> (match m with
                 | N0 -> n0
                 | Npos q -> Npos (Coq_Pos.add p q))

  (** val sub : n -> n -> n **)

  let sub n0 m =
    match n0 with
    | N0 -> N0
    | Npos n' ->
      (match m with
       | N0 -> n0
       | Npos m' ->
         (match Coq_Pos.sub_mask n' m' with
          | Coq_Pos.IsPos p -> Npos p
          | _ -> N0))

  (** val mul : n -> n -> n **)

  let mul n0 m =
    match n0 with
    | N0 -> N0
    | Npos p -> (match m with
                 | N0 -> N0
                 | Npos q -> Npos (Coq_Pos.mul p q))

  (** val compare : n -> n -> comparison **)

  let compare n0 m =
    match n0 with
    | N0 -> (match m with
             | N0 -> Eq
             | Npos _ -> Lt)
    | Npos n' -> (match m with
                  | N0 -> Gt
                  | Npos m' -> Coq_Pos.compare n' m')

  (** val eqb : n -> n -> bool **)

  let eqb n0 m =
    match n0 with
    | N0 -> (match m with
             | N0 -> true
             | Npos _ -> false)
    | Npos p -> (match m with
                 | N0 -> false
                 | Npos q -> Coq_Pos.eqb p q)

  (** val leb : n -> n -> bool **)

  let leb x y =
    match compare x y with
    | Gt -> false
    | _ -> true

  (** val ltb : n -> n -> bool **)

  let ltb x y =
    match compare x y with
    | Lt -> true
    | _ -> false

  (** val max : n -> n -> n **)

  let max n0 n' =
    match compare n0 n' with
    | Gt -> n0
    | _ -> n'

  (** val div2 : n -> n **)

  let div2 = function
  | N0 -> N0
  | Npos p0 -> (match p0 with
                | XI p -> Npos p
                | XO p -> Npos p
                | XH -> N0)

  (** val pow : n -> n -> n **)

  let pow n0 = function
  | N0 -> Npos XH
  | Npos p0 -> (match n0 with
                | N0 -> N0
                | Npos q -> Npos (Coq_Pos.pow q p0))

  (** val log2 : n -> n **)

  let log2 = function
  | N0 -> N0
  | Npos p0 ->
    (match p0 with
     | XI p -> Npos (Coq_Pos.size p)
     | XO p -> Npos (Coq_Pos.size p)
     | XH -> N0)

  (** val pos_div_eucl : positive -> n -> n * n **)

  let rec pos_div_eucl a b =
    match a with
    | XI a' ->
      let (q, r) = pos_div_eucl a' b in
      let r' = succ_double r in
      if leb b r' then ((succ_double q), (sub r' b)) else ((double q), r')
    | XO a' ->
      let (q, r) = pos_div_eucl a' b in
      let r' = double r in
      if leb b r' then ((succ_double q), (sub r' b)) else ((double q), r')
    | XH ->
      (match b with
       | N0 -> (N0, (Npos XH))
       | Npos p -> (match p with
                    | XH -> ((Npos XH), N0)
                    | _ -> (N0, (Npos XH))))

  (** val div_eucl : n -> n -> n * n **)

  let div_eucl a b =
    match a with
    | N0 -> (N0, N0)
    | Npos na -> (match b with
                  | N0 -> (N0, a)
                  | Npos _ -> pos_div_eucl na b)

  (** val div : n -> n -> n **)

  let div a b =
    fst (div_eucl a b)

  (** val modulo : n -> n -> n **)

  let modulo a b =
    snd (div_eucl a b)

  (** val sqrt : n -> n **)

  let sqrt = function
  | N0 -> N0
  | Npos p -> Npos (Coq_Pos.sqrt p)

  (** val coq_lor : n -> n -> n **)

  let coq_lor n0 m =
    match n0 with
    | N0 -> m
    | Npos p -> (match m with
                 | N0 -> n0
                 | Npos q -> Npos (Coq_Pos.coq_lor p q))

  (** val coq_land : n -> n -> n **)

  let coq_land n0 m =
    match n0 with
    | N0 -> N0
    | Npos p -> (match m with
                 | N0 -> N0
                 | Npos q -> Coq_Pos.coq_land p q)

  (** val coq_lxor : n -> n -> n **)

  let coq_lxor n0 m =
    match n0 with
    | N0 -> m
    | Npos p -> (match m with
                 | N0 -> n0
                 | Npos q -> Coq_Pos.coq_lxor p q)

  (** val shiftl : n -> n -> n **)

  let shiftl a n0 =
    match a with
    | N0 -> N0
    | Npos a0 -> Npos (Coq_Pos.shiftl a0 n0)

  (** val shiftr : n -> n -> n **)

  let shiftr a = function
  | N0 -> a
  | Npos p -> Coq_Pos.iter div2 a p

  (** val to_nat : n -> nat **)

  let to_nat = function
  | N0 -> O
  | Npos p -> Coq_Pos.to_nat p

  (** val of_nat : nat -> n **)

  let of_nat = function
  | O -> N0
  | S n' -> Npos (Coq_Pos.of_succ_nat n')
 end

module Z =
 struct
  (** val double : z -> z **)

  let double = function
  | Z0 -> Z0
  | Zpos p -> Zpos (XO p)
  | Zneg p -> Zneg (XO p)

  (** val succ_double : z -> z **)

  let succ_double = function
  | Z0 -> Zpos XH
  | Zpos p -> Zpos (XI p)
  | Zneg p -> Zneg (Coq_Pos.pred_double p)

  (** val pred_double : z -> z **)

  let pred_double = function
  | Z0 -> Zneg XH
  | Zpos p -> Zpos (Coq_Pos.pred_double p)
  | Zneg p -> Zneg (XI p)

  (** val pos_sub : positive -> positive -> z **)

  let rec pos_sub x y =
    match x with
    | XI p ->
      (match y with
       | XI q -> double (pos_sub p q)
       | XO q -> succ_double (pos_sub p q)
       | XH -> Zpos (XO p))
    | XO p ->
      (match y with
       | XI q -> pred_double (pos_sub p q)
       | XO q -> double (pos_sub p q)
       | XH -> Zpos (Coq_Pos.pred_double p))
    | XH ->
      (match y with
       | XI q -> Zneg (XO q)
       | XO q -> Zneg (Coq_Pos.pred_double q)
       | XH -> Z0)

  (** val add : z -> z -> z **)

  let add x y =
    match x with
    | Z0 -> y
    | Zpos x' ->
      (match y with
       | Z0 -> x
       | Zpos y' -> Zpos (Coq_Pos.add x' y')
       | Zneg y' -> pos_sub x' y')
    | Zneg x' ->
      (match y with
       | Z0 -> x
       | Zpos y' -> pos_sub y' x'
       | Zneg y' -> Zneg (Coq_Pos.add x' y'))

  (** val opp : z -> z **)

  let opp = function
  | Z0 -> Z0
  | Zpos x0 -> Zneg x0
  | Zneg x0 -> Zpos x0

  (** val sub : z -> z -> z **)

  let sub m n0 =
    add m (opp n0)

  (** val mul : z -> z -> z **)

  let mul x y =
    match x with
    | Z0 -> Z0
    | Zpos x' ->
      (match y with
       | Z0 -> Z0
       | Zpos y' -> Zpos (Coq_Pos.mul x' y')
       | Zneg y' -> Zneg (Coq_Pos.mul x' y'))
    | Zneg x' ->
      (match y with
       | Z0 -> Z0
       | Zpos y' -> Zneg (Coq_Pos.mul x' y')
       | Zneg y' -> Zpos (Coq_Pos.mul x' y'))

  (** val compare : z -> z -> comparison **)

  let compare x y =
    match x with
    | Z0 -> (match y with
             | Z0 -> Eq
             | Zpos _ -> Lt
             | Zneg _ -> Gt)
    | Zpos x' -> (match y with
                  | Zpos y' -> Coq_Pos.compare x' y'
                  | _ -> Gt)
    | Zneg x' ->
      (match y with
       | Zneg y' -> compOpp (Coq_Pos.compare x' y')
       | _ -> Lt)

  (** val leb : z -> z -> bool **)

  let leb x y =
    match compare x y with
    | Gt -> false
    | _ -> true

  (** val ltb : z -> z -> bool **)

  let ltb x y =
    match compare x y with
    | Lt -> true
    | _ -> false

  (** val to_N : z -> n **)

  let to_N = function
  | Zpos p -> Npos p
  | _ -> N0

  (** val of_N : n -> z **)

  let of_N = function
  | N0 -> Z0
  | Npos p -> Zpos p

  (** val pos_div_eucl : positive -> z -> z * z **)

  let rec pos_div_eucl a b =
    match a with
    | XI a' ->
      let (q, r) = pos_div_eucl a' b in
      let r' = add (mul (Zpos (XO XH)) r) (Zpos XH) in
      if ltb r' b
      then ((mul (Zpos (XO XH)) q), r')
      else ((add (mul (Zpos (XO XH)) q) (Zpos XH)), (sub r' b))
    | XO a' ->
      let (q, r) = pos_div_eucl a' b in
      let r' = mul (Zpos (XO XH)) r in
      if ltb r' b
      then ((mul (Zpos (XO XH)) q), r')
      else ((add (mul (Zpos (XO XH)) q) (Zpos XH)), (sub r' b))
    | XH -> if leb (Zpos (XO XH)) b then (Z0, (Zpos XH)) else ((Zpos XH), Z0)

  (** val div_eucl : z -> z -> z * z **)

  let div_eucl a b =
    match a with
    | Z0 -> (Z0, Z0)
    | Zpos a' ->
      (match b with
       | Z0 -> (Z0, a)
       | Zpos _ -> pos_div_eucl a' b
       | Zneg b' ->
         let (q, r) = pos_div_eucl a' (Zpos b') in
         (match r with
          | Z0 -> ((opp q), Z0)
          | _ -> ((opp (add q (Zpos XH))), (add b r))))
    | Zneg a' ->
      (match b with
       | Z0 -> (Z0, a)
       | Zpos _ ->
         let (q, r) = pos_div_eucl a' b in
         (match r with
          | Z0 -> ((opp q), Z0)
          | _ -> ((opp (add q (Zpos XH))), (sub b r)))
       | Zneg b' -> let (q, r) = pos_div_eucl a' (Zpos b') in (q, (opp r)))

  (** val modulo : z -> z -> z **)

  let modulo a b =
    let (_, r) = div_eucl a b in r
 end

(** val rev : 'a1 list -> 'a1 list **)

let rec rev = function
| [] -> []
| x :: l' -> app (rev l') (x :: [])

(** val map : ('a1 -> 'a2) -> 'a1 list -> 'a2 list **)

let rec map f = function
| [] -> []
| a :: t -> (f a) :: (map f t)

(** val forallb : ('a1 -> bool) -> 'a1 list -> bool **)

let rec forallb f = function
| [] -> true
| a :: l0 -> (&&) (f a) (forallb f l0)

(** val filter : ('a1 -> bool) -> 'a1 list -> 'a1 list **)

let rec filter f = function
| [] -> []
| x :: l0 -> if f x then x :: (filter f l0) else filter f l0

(** val combine : 'a1 list -> 'a2 list -> ('a1 * 'a2) list **)

let rec combine l l' =
  match l with
  | [] -> []
  | x :: tl ->
    (match l' with
     | [] -> []
     | y :: tl' -> (x, y) :: (combine tl tl'))

(** val firstn : nat -> 'a1 list -> 'a1 list **)

let rec firstn n0 l =
  match n0 with
  | O -> []
  | S n1 -> (match l with
             | [] -> []
             | a :: l0 -> a :: (firstn n1 l0))

(** val skipn : nat -> 'a1 list -> 'a1 list **)

let rec skipn n0 l =
  match n0 with
  | O -> l
  | S n1 -> (match l with
             | [] -> []
             | _ :: l0 -> skipn n1 l0)

(** val repeat : 'a1 -> nat -> 'a1 list **)

let rec repeat x = function
| O -> []
| S k -> x :: (repeat x k)

type fault =
| Panic
| Overflow
| UB
| DebugAssert
| OutOfFuel

type 'a outcome =
| Val of 'a
| Fault of fault

(** val bind : 'a1 outcome -> ('a1 -> 'a2 outcome) -> 'a2 outcome **)

let bind x f =
  match x with
  | Val a -> f a
  | Fault e -> Fault e

(** val osub : n -> n -> n outcome **)

let osub a b =
  if N.leb b a then Val (N.sub a b) else Fault Overflow

(** val oadd : n -> n -> n -> n outcome **)

let oadd w a b =
  if N.ltb (N.add a b) (N.pow (Npos (XO XH)) w)
  then Val (N.add a b)
  else Fault Overflow

(** val omul : n -> n -> n -> n outcome **)

let omul w a b =
  if N.ltb (N.mul a b) (N.pow (Npos (XO XH)) w)
  then Val (N.mul a b)
  else Fault Overflow

(** val oshr : n -> n -> n -> n outcome **)

let oshr w x s =
  if N.ltb s w then Val (N.shiftr x s) else Fault Overflow

(** val oshl : n -> n -> n -> n outcome **)

let oshl w x s =
  if N.ltb s w
  then Val (N.modulo (N.shiftl x s) (N.pow (Npos (XO XH)) w))
  else Fault Overflow

(** val oassert : bool -> unit outcome **)

let oassert = function
| true -> Val ()
| false -> Fault Panic

(** val odebug_assert : bool -> unit outcome **)

let odebug_assert = function
| true -> Val ()
| false -> Fault DebugAssert

(** val ounwrap : 'a1 option -> 'a1 outcome **)

let ounwrap = function
| Some a -> Val a
| None -> Fault Panic

(** val len : 'a1 list -> n **)

let len l =
  N.of_nat (length l)

(** val nthN : 'a1 list -> n -> 'a1 option **)

let rec nthN l i =
  match l with
  | [] -> None
  | x :: l' -> if N.eqb i N0 then Some x else nthN l' (N.pred i)

(** val firstnN : n -> 'a1 list -> 'a1 list **)

let rec firstnN i = function
| [] -> []
| x :: l' -> if N.eqb i N0 then [] else x :: (firstnN (N.pred i) l')

(** val setN : 'a1 list -> n -> 'a1 -> 'a1 list **)

let rec setN l i v =
  match l with
  | [] -> []
  | x :: l' -> if N.eqb i N0 then v :: l' else x :: (setN l' (N.pred i) v)

(** val idx : 'a1 list -> n -> 'a1 outcome **)

let idx l i =
  match nthN l i with
  | Some a -> Val a
  | None -> Fault Panic

(** val uidx : 'a1 list -> n -> 'a1 outcome **)

let uidx l i =
  match nthN l i with
  | Some a -> Val a
  | None -> Fault UB

(** val countN : n -> n list -> n **)

let rec countN c = function
| [] -> N0
| x :: l' -> N.add (if N.eqb x c then Npos XH else N0) (countN c l')

(** val last_opt : 'a1 list -> 'a1 option **)

let rec last_opt = function
| [] -> None
| x :: l' -> (match l' with
              | [] -> Some x
              | _ :: _ -> last_opt l')

(** val set_last : 'a1 list -> 'a1 -> 'a1 list **)

let rec set_last l v =
  match l with
  | [] -> []
  | x :: l' -> (match l' with
                | [] -> v :: []
                | _ :: _ -> x :: (set_last l' v))

(** val maxN : n list -> n **)

let rec maxN = function
| [] -> N0
| x :: l' -> N.max x (maxN l')

(** val sumN : n list -> n **)

let rec sumN = function
| [] -> N0
| x :: l' -> N.add x (sumN l')

(** val rank_spec : n list -> n -> n -> n **)

let rec rank_spec s c i =
  match s with
  | [] -> N0
  | x :: s' ->
    if N.eqb i N0
    then N0
    else N.add (if N.eqb x c then Npos XH else N0) (rank_spec s' c (N.pred i))

(** val select_from : n list -> n -> n -> n -> n option **)

let rec select_from s c k pos =
  match s with
  | [] -> None
  | x :: s' ->
    if N.eqb x c
    then if N.eqb k N0
         then Some pos
         else select_from s' c (N.pred k) (N.add pos (Npos XH))
    else select_from s' c k (N.add pos (Npos XH))

(** val select_spec : n list -> n -> n -> n option **)

let select_spec s c k =
  select_from s c k N0

(** val get_spec : 'a1 list -> n -> 'a1 option **)

let get_spec =
  nthN

(** val lINE_SHIFT : n **)

let lINE_SHIFT =
  Npos (XO (XO (XO XH)))

(** val lINE_MASK : n **)

let lINE_MASK =
  Npos (XI (XI (XI (XI (XI (XI (XI XH)))))))

(** val pUSH_LINE_MASK : n **)

let pUSH_LINE_MASK =
  Npos (XI (XI (XI (XI (XI (XI (XI XH)))))))

(** val pUSH_POS_STEP : n **)

let pUSH_POS_STEP =
  Npos (XO XH)

(** val qV_SYM_MASK : n **)

let qV_SYM_MASK =
  Npos (XI XH)

(** val qV_WORD_SHIFT : n **)

let qV_WORD_SHIFT =
  Npos (XI (XI XH))

(** val qV_WORD_MASK : n **)

let qV_WORD_MASK =
  Npos (XI (XI (XI (XI (XI (XI XH))))))

(** val qV_LOW_PLANE : n **)

let qV_LOW_PLANE =
  Npos (XO XH)

(** val qVG_WORD_SHIFT : n **)

let qVG_WORD_SHIFT =
  Npos (XI (XI XH))

(** val qVG_WORD_MASK : n **)

let qVG_WORD_MASK =
  Npos (XI (XI (XI (XI (XI (XI XH))))))

(** val qVG_LOW_PLANE : n **)

let qVG_LOW_PLANE =
  Npos (XO XH)

(** val qVR_WORD_SHIFT : n **)

let qVR_WORD_SHIFT =
  Npos (XI (XI XH))

(** val qVR_WORD_MASK : n **)

let qVR_WORD_MASK =
  Npos (XI (XI (XI (XI (XI (XI XH))))))

(** val qV_LEN_SHIFT : n **)

let qV_LEN_SHIFT =
  Npos XH

(** val sB_SHIFT : n **)

let sB_SHIFT =
  Npos (XO (XO (XI (XO (XI (XO XH))))))

(** val sB_SHIFT_GR : n **)

let sB_SHIFT_GR =
  Npos (XO (XO (XI (XO (XI (XO XH))))))

(** val bLK_BITS_GR : n **)

let bLK_BITS_GR =
  Npos (XO (XO (XI XH)))

(** val bLK_MASK_GR : n **)

let bLK_MASK_GR =
  Npos (XI (XI (XI (XI (XI (XI (XI (XI (XI (XI (XI XH)))))))))))

(** val sB_SHIFT_GC : n **)

let sB_SHIFT_GC =
  Npos (XO (XO (XI (XO (XI (XO XH))))))

(** val bLK_LIMIT : n **)

let bLK_LIMIT =
  Npos (XO (XO (XO (XO (XO (XO (XO (XO (XO (XO (XO (XO XH))))))))))))

(** val sET_BLOCK_ID_LIMIT : n **)

let sET_BLOCK_ID_LIMIT =
  Npos (XO (XO (XO XH)))

(** val bLK_BITS : n **)

let bLK_BITS =
  Npos (XO (XO (XI XH)))

(** val bLK_MASK_BP : n **)

let bLK_MASK_BP =
  Npos (XI (XI (XI (XI (XI (XI (XI (XI (XI (XI (XI XH)))))))))))

(** val bLK_BITS_BP : n **)

let bLK_BITS_BP =
  Npos (XO (XO (XI XH)))

(** val bLOCKS_IN_SB : n **)

let bLOCKS_IN_SB =
  Npos (XO (XO (XO XH)))

(** val rS_BLOCKS_IN_SB : n **)

let rS_BLOCKS_IN_SB =
  Npos (XO (XO (XO XH)))

(** val sELECT_NUM_SAMPLES : n **)

let sELECT_NUM_SAMPLES =
  Npos (XO (XO (XO (XO (XO (XO (XO (XO (XO (XO (XO (XO (XO XH)))))))))))))

(** val mAX_LEN : n **)

let mAX_LEN =
  Npos (XO (XO (XO (XO (XO (XO (XO (XO (XO (XO (XO (XO (XO (XO (XO (XO (XO
    (XO (XO (XO (XO (XO (XO (XO (XO (XO (XO (XO (XO (XO (XO (XO (XO (XO (XO
    (XO (XO (XO (XO (XO (XO (XO (XO
    XH)))))))))))))))))))))))))))))))))))))))))))

(** val rANK_BLOCK_MASK : n **)

let rANK_BLOCK_MASK =
  Npos (XI (XI XH))

(** val k_ONES_STEP4 : n **)

let k_ONES_STEP4 =
  Npos (XI (XO (XO (XO (XI (XO (XO (XO (XI (XO (XO (XO (XI (XO (XO (XO (XI
    (XO (XO (XO (XI (XO (XO (XO (XI (XO (XO (XO (XI (XO (XO (XO (XI (XO (XO
    (XO (XI (XO (XO (XO (XI (XO (XO (XO (XI (XO (XO (XO (XI (XO (XO (XO (XI
    (XO (XO (XO (XI (XO (XO (XO
    XH))))))))))))))))))))))))))))))))))))))))))))))))))))))))))))

(** val k_ONES_STEP8 : n **)

let k_ONES_STEP8 =
  Npos (XI (XO (XO (XO (XO (XO (XO (XO (XI (XO (XO (XO (XO (XO (XO (XO (XI
    (XO (XO (XO (XO (XO (XO (XO (XI (XO (XO (XO (XO (XO (XO (XO (XI (XO (XO
    (XO (XO (XO (XO (XO (XI (XO (XO (XO (XO (XO (XO (XO (XI (XO (XO (XO (XO
    (XO (XO (XO XH))))))))))))))))))))))))))))))))))))))))))))))))))))))))

(** val k_LAMBDAS_STEP8 : n **)

let k_LAMBDAS_STEP8 =
  Npos (XO (XO (XO (XO (XO (XO (XO (XI (XO (XO (XO (XO (XO (XO (XO (XI (XO
    (XO (XO (XO (XO (XO (XO (XI (XO (XO (XO (XO (XO (XO (XO (XI (XO (XO (XO
    (XO (XO (XO (XO (XI (XO (XO (XO (XO (XO (XO (XO (XI (XO (XO (XO (XO (XO
    (XO (XO (XI (XO (XO (XO (XO (XO (XO (XO
    XH)))))))))))))))))))))))))))))))))))))))))))))))))))))))))))))))

(** val sIW_M1 : n **)

let sIW_M1 =
  Npos (XO (XI (XO XH)))

(** val sIW_M2 : n **)

let sIW_M2 =
  Npos (XI XH)

(** val sIW_M3 : n **)

let sIW_M3 =
  Npos (XI (XI (XI XH)))

(** val sIW_PLACE_MUL : n **)

let sIW_PLACE_MUL =
  Npos (XO (XO (XO XH)))

(** val sIW_NOTFOUND : n **)

let sIW_NOTFOUND =
  Npos (XO (XO (XO (XO (XO (XO XH))))))

(** val sIW_BYTE_MASK : n **)

let sIW_BYTE_MASK =
  Npos (XI (XI (XI (XI (XI (XI (XI XH)))))))

(** val lINE_SYMS : n **)

let lINE_SYMS =
  N.pow (Npos (XO XH)) lINE_SHIFT

(** val lINE_SYMS_nat : nat **)

let lINE_SYMS_nat =
  N.to_nat lINE_SYMS

type qvec = { qv_data : n list list; qv_position : n }

(** val zero_line : n list **)

let zero_line =
  repeat N0 lINE_SYMS_nat

(** val line_set_symbol : n list -> n -> n -> n list **)

let line_set_symbol l symbol i =
  match nthN l i with
  | Some old -> setN l i (N.coq_lor old (N.coq_land symbol (Npos (XI XH))))
  | None -> l

(** val line_get_unchecked : n list -> n -> n outcome **)

let line_get_unchecked =
  uidx

(** val line_rank_unchecked : n list -> n -> n -> n outcome **)

let line_rank_unchecked l symbol i =
  bind (odebug_assert (N.leb symbol (Npos (XI XH)))) (fun _ ->
    bind (odebug_assert (N.leb i lINE_SYMS)) (fun _ -> Val
      (countN symbol (firstnN i l))))

(** val qvb_new : qvec **)

let qvb_new =
  { qv_data = []; qv_position = N0 }

(** val qvb_push : qvec -> n -> qvec outcome **)

let qvb_push b symbol =
  let pos_in_last_line =
    N.coq_land (N.div b.qv_position (Npos (XO XH))) pUSH_LINE_MASK
  in
  let data =
    if N.eqb pos_in_last_line N0
    then app b.qv_data (zero_line :: [])
    else b.qv_data
  in
  bind (ounwrap (last_opt data)) (fun last -> Val { qv_data =
    (set_last data (line_set_symbol last symbol pos_in_last_line));
    qv_position = (N.add b.qv_position pUSH_POS_STEP) })

(** val as_u8 : z -> n **)

let as_u8 v =
  Z.to_N (Z.modulo v (Zpos (XO (XO (XO (XO (XO (XO (XO (XO XH))))))))))

(** val qvb_extend : qvec -> z list -> qvec outcome **)

let rec qvb_extend b = function
| [] -> Val b
| v :: vs' -> bind (qvb_push b (as_u8 v)) (fun b' -> qvb_extend b' vs')

(** val qv_from_iter : z list -> qvec outcome **)

let qv_from_iter vs =
  qvb_extend qvb_new vs

(** val qvb_push_all : qvec -> n list -> qvec outcome **)

let rec qvb_push_all b = function
| [] -> Val b
| v :: vs' -> bind (qvb_push b v) (fun b' -> qvb_push_all b' vs')

(** val qv_len : qvec -> n **)

let qv_len q =
  N.shiftr q.qv_position qV_LEN_SHIFT

(** val qv_is_empty : qvec -> bool **)

let qv_is_empty q =
  N.eqb q.qv_position N0

(** val qv_get_unchecked : qvec -> n -> n outcome **)

let qv_get_unchecked q i =
  bind (odebug_assert (N.ltb i (N.div q.qv_position (Npos (XO XH)))))
    (fun _ ->
    bind (uidx q.qv_data (N.shiftr i lINE_SHIFT)) (fun l ->
      line_get_unchecked l (N.coq_land i lINE_MASK)))

(** val qv_get : qvec -> n -> n option outcome **)

let qv_get q i =
  if N.leb (N.shiftr q.qv_position (Npos XH)) i
  then Val None
  else bind (qv_get_unchecked q i) (fun v -> Val (Some v))

(** val qvit_next : qvec -> n -> (n option * n) outcome **)

let qvit_next q i =
  bind (oadd (Npos (XO (XO (XO (XO (XO (XO XH))))))) i (Npos XH)) (fun i' ->
    bind (qv_get q i) (fun v -> Val (v, i')))

(** val sb_new : n list -> n list **)

let sb_new sbc =
  map (fun c ->
    N.modulo (N.shiftl c sB_SHIFT)
      (N.pow (Npos (XO XH)) (Npos (XO (XO (XO (XO (XO (XO (XO XH)))))))))) sbc

(** val sb_get_rank : n list -> n -> n -> n outcome **)

let sb_get_rank s symbol block_id =
  bind (uidx s symbol) (fun data ->
    let sb = N.shiftr data sB_SHIFT_GR in
    let not_first = if N.ltb N0 block_id then Npos XH else N0 in
    let b =
      N.mul
        (N.coq_land
          (N.shiftr data (N.mul (N.sub block_id not_first) bLK_BITS_GR))
          bLK_MASK_GR) not_first
    in
    Val (N.add sb b))

(** val sb_get_superblock_counter : n list -> n -> n outcome **)

let sb_get_superblock_counter s symbol =
  bind (uidx s symbol) (fun data -> Val (N.shiftr data sB_SHIFT_GC))

(** val sb_set_block_counters : n list -> n -> n list -> n list outcome **)

let sb_set_block_counters s block_id counters =
  bind (oassert (N.ltb block_id sET_BLOCK_ID_LIMIT)) (fun _ ->
    bind (oassert (forallb (fun c -> N.ltb c bLK_LIMIT) counters)) (fun _ ->
      if N.eqb block_id N0
      then Val s
      else Val
             (map (fun pat ->
               let (w, c) = pat in
               N.coq_lor w
                 (N.modulo
                   (N.shiftl c (N.mul (N.sub block_id (Npos XH)) bLK_BITS))
                   (N.pow (Npos (XO XH)) (Npos (XO (XO (XO (XO (XO (XO (XO
                     XH))))))))))) (combine s counters))))

(** val sb_block_pred_loop : n -> n -> n -> n -> nat -> n * n **)

let rec sb_block_pred_loop cnt prev_cnt target block_id = function
| O -> ((N.sub bLOCKS_IN_SB (Npos XH)), prev_cnt)
| S f ->
  let curr = N.coq_land cnt bLK_MASK_BP in
  if N.leb target curr
  then ((N.sub block_id (Npos XH)), prev_cnt)
  else sb_block_pred_loop (N.shiftr cnt bLK_BITS_BP) curr target
         (N.add block_id (Npos XH)) f

(** val sb_block_predecessor : n list -> n -> n -> (n * n) outcome **)

let sb_block_predecessor s symbol target =
  bind (idx s symbol) (fun cnt -> Val
    (sb_block_pred_loop cnt N0 target (Npos XH)
      (N.to_nat (N.sub bLOCKS_IN_SB (Npos XH)))))

type rssupport = { rs_superblocks : n list list; rs_samples : n list list }

type rsb_state = { b_i : n; b_sbc : n list; b_bc : n list; b_occ : n list;
                   b_samples : n list list; b_sbs : n list list }

(** val incr : n list -> n -> n list outcome **)

let incr l s =
  bind (idx l s) (fun v -> Val (setN l s (N.add v (Npos XH))))

(** val rsb_boundaries : n -> rsb_state -> rsb_state outcome **)

let rsb_boundaries bsize st =
  let sbsize = N.mul rS_BLOCKS_IN_SB bsize in
  let i = st.b_i in
  let st1 =
    if N.eqb (N.modulo i sbsize) N0
    then { b_i = i; b_sbc = st.b_sbc; b_bc =
           (N0 :: (N0 :: (N0 :: (N0 :: [])))); b_occ = st.b_occ; b_samples =
           st.b_samples; b_sbs = ((sb_new st.b_sbc) :: st.b_sbs) }
    else st
  in
  if N.eqb (N.modulo i bsize) N0
  then let block_id = N.modulo (N.div i bsize) rS_BLOCKS_IN_SB in
       (match st1.b_sbs with
        | [] -> Fault Panic
        | last :: rest ->
          bind (sb_set_block_counters last block_id st1.b_bc) (fun last' ->
            Val { b_i = i; b_sbc = st1.b_sbc; b_bc = st1.b_bc; b_occ =
            st1.b_occ; b_samples = st1.b_samples; b_sbs = (last' :: rest) }))
  else Val st1

(** val rsb_symbol : n -> rsb_state -> n -> rsb_state outcome **)

let rsb_symbol bsize st symbol =
  let sbsize = N.mul rS_BLOCKS_IN_SB bsize in
  let i = st.b_i in
  bind (idx st.b_occ symbol) (fun o ->
    bind
      (if N.eqb (N.modulo o sELECT_NUM_SAMPLES) N0
       then bind (idx st.b_samples symbol) (fun sl -> Val
              (setN st.b_samples symbol
                ((N.modulo (N.div i sbsize)
                   (N.pow (Npos (XO XH)) (Npos (XO (XO (XO (XO (XO XH)))))))) :: sl)))
       else Val st.b_samples) (fun samples ->
      bind (incr st.b_sbc symbol) (fun sbc ->
        bind (incr st.b_bc symbol) (fun bc ->
          bind (incr st.b_occ symbol) (fun occ -> Val { b_i =
            (N.add i (Npos XH)); b_sbc = sbc; b_bc = bc; b_occ = occ;
            b_samples = samples; b_sbs = st.b_sbs })))))

(** val rsb_loop : n -> rsb_state -> n list -> rsb_state outcome **)

let rec rsb_loop bsize st = function
| [] -> rsb_boundaries bsize st
| s :: syms' ->
  bind (rsb_boundaries bsize st) (fun st1 ->
    bind (rsb_symbol bsize st1 s) (fun st2 -> rsb_loop bsize st2 syms'))

(** val rss_new : n -> n list -> rssupport outcome **)

let rss_new bsize syms =
  let n0 = len syms in
  bind (oassert (N.ltb n0 mAX_LEN)) (fun _ ->
    bind
      (oassert
        ((||) (N.eqb bsize (Npos (XO (XO (XO (XO (XO (XO (XO (XO XH))))))))))
          (N.eqb bsize (Npos (XO (XO (XO (XO (XO (XO (XO (XO (XO XH)))))))))))))
      (fun _ ->
      bind
        (rsb_loop bsize { b_i = N0; b_sbc =
          (N0 :: (N0 :: (N0 :: (N0 :: [])))); b_bc =
          (N0 :: (N0 :: (N0 :: (N0 :: [])))); b_occ =
          (N0 :: (N0 :: (N0 :: (N0 :: [])))); b_samples =
          ([] :: ([] :: ([] :: ([] :: [])))); b_sbs = [] } syms) (fun st ->
        let next_block_id =
          N.add (N.modulo (N.div n0 bsize) rS_BLOCKS_IN_SB) (Npos XH)
        in
        bind
          (if N.ltb next_block_id rS_BLOCKS_IN_SB
           then (match st.b_sbs with
                 | [] -> Fault Panic
                 | last :: rest ->
                   bind (sb_set_block_counters last next_block_id st.b_bc)
                     (fun last' -> Val (last' :: rest)))
           else Val st.b_sbs) (fun sbs ->
          let nsb = len sbs in
          let sentinel =
            N.modulo
              (N.sub
                (N.add
                  (N.modulo nsb
                    (N.pow (Npos (XO XH)) (Npos (XO (XO (XO (XO (XO XH))))))))
                  (N.pow (Npos (XO XH)) (Npos (XO (XO (XO (XO (XO XH))))))))
                (Npos XH))
              (N.pow (Npos (XO XH)) (Npos (XO (XO (XO (XO (XO XH)))))))
          in
          bind
            (if N.eqb
                  (N.modulo nsb
                    (N.pow (Npos (XO XH)) (Npos (XO (XO (XO (XO (XO XH))))))))
                  N0
             then Fault Overflow
             else Val ()) (fun _ ->
            let samples =
              map (fun sl ->
                rev
                  (sentinel :: (match sl with
                                | [] -> N0 :: []
                                | _ :: _ -> sl))) st.b_samples
            in
            Val { rs_superblocks = (rev sbs); rs_samples = samples })))))

(** val rss_superblock_index : n -> n -> n **)

let rss_superblock_index bsize i =
  N.div i (N.mul bsize rS_BLOCKS_IN_SB)

(** val rss_block_index : n -> n -> n **)

let rss_block_index bsize i =
  N.div i bsize

(** val rss_rank_block : n -> rssupport -> n -> n -> n outcome **)

let rss_rank_block bsize r symbol i =
  bind (odebug_assert (N.leb symbol (Npos (XI XH)))) (fun _ ->
    bind (uidx r.rs_superblocks (rss_superblock_index bsize i)) (fun sb ->
      sb_get_rank sb symbol
        (N.coq_land (rss_block_index bsize i) rANK_BLOCK_MASK)))

(** val rss_scan : rssupport -> n -> n -> n -> n -> n -> nat -> n outcome **)

let rec rss_scan r symbol i first last step = function
| O -> Fault OutOfFuel
| S f ->
  if N.ltb first last
  then bind (idx r.rs_superblocks first) (fun sb ->
         bind (sb_get_superblock_counter sb symbol) (fun c ->
           if N.leb i c
           then Val first
           else rss_scan r symbol i (N.add first step) last step f))
  else Val first

(** val rss_select_block : n -> rssupport -> n -> n -> (n * n) outcome **)

let rss_select_block bsize r symbol i =
  bind (osub i (Npos XH)) (fun i1 ->
    let sampled_i = N.div i1 sELECT_NUM_SAMPLES in
    bind (idx r.rs_samples symbol) (fun samples ->
      bind (idx samples sampled_i) (fun first0 ->
        bind (idx samples (N.add sampled_i (Npos XH))) (fun last0 ->
          let last = N.add (Npos XH) last0 in
          bind (osub last first0) (fun d ->
            let step = N.add (N.sqrt d) (Npos XH) in
            let fuel = S (length r.rs_superblocks) in
            bind (rss_scan r symbol i first0 last step fuel) (fun first1 ->
              bind (osub first1 step) (fun first2 ->
                bind
                  (rss_scan r symbol i first2 last (Npos XH)
                    (add (S (N.to_nat step)) fuel)) (fun first3 ->
                  bind (osub first3 (Npos XH)) (fun first4 ->
                    let position = N.mul (N.mul first4 bsize) rS_BLOCKS_IN_SB
                    in
                    bind (idx r.rs_superblocks first4) (fun sb ->
                      bind (sb_get_superblock_counter sb symbol) (fun rank ->
                        bind (osub i rank) (fun t ->
                          bind (sb_block_predecessor sb symbol t) (fun pat ->
                            let (block_id, block_rank) = pat in
                            Val ((N.add position (N.mul block_id bsize)),
                            (N.add rank block_rank)))))))))))))))

type rsq = { rsq_qv : qvec; rsq_rs : rssupport; rsq_occs_smaller : n list }

(** val qv_iter_all : qvec -> n -> nat -> n list outcome **)

let rec qv_iter_all q i = function
| O -> Val []
| S f ->
  bind (qv_get q i) (fun v ->
    match v with
    | Some s ->
      bind (qv_iter_all q (N.add i (Npos XH)) f) (fun rest -> Val (s :: rest))
    | None -> Val [])

(** val qv_symbols : qvec -> n list outcome **)

let qv_symbols q =
  qv_iter_all q N0 (mul (length q.qv_data) lINE_SYMS_nat)

(** val occs_smaller_of : n list -> n list **)

let occs_smaller_of syms =
  let c = fun s -> countN s syms in
  N0 :: ((c N0) :: ((N.add (c N0) (c (Npos XH))) :: ((N.add
                                                       (N.add (c N0)
                                                         (c (Npos XH)))
                                                       (c (Npos (XO XH)))) :: (
  (N.add (N.add (N.add (c N0) (c (Npos XH))) (c (Npos (XO XH))))
    (c (Npos (XI XH)))) :: []))))

(** val rsq_from_qv : n -> qvec -> rsq outcome **)

let rsq_from_qv bsize q =
  bind (qv_symbols q) (fun syms ->
    bind (rss_new bsize syms) (fun rs -> Val { rsq_qv = q; rsq_rs = rs;
      rsq_occs_smaller = (occs_smaller_of syms) }))

(** val rsq_new : n -> n list -> rsq outcome **)

let rsq_new bsize vs =
  bind
    (qvb_push_all qvb_new
      (map (fun v ->
        N.modulo v (Npos (XO (XO (XO (XO (XO (XO (XO (XO XH)))))))))) vs))
    (fun q -> rsq_from_qv bsize q)

(** val rsq_default : n -> rsq outcome **)

let rsq_default bsize =
  rsq_from_qv bsize qvb_new

(** val rsq_len : rsq -> n **)

let rsq_len r =
  qv_len r.rsq_qv

(** val rsq_is_empty : rsq -> bool **)

let rsq_is_empty r =
  N.eqb (qv_len r.rsq_qv) N0

(** val rsq_get : rsq -> n -> n option outcome **)

let rsq_get r i =
  qv_get r.rsq_qv i

(** val rsq_get_unchecked : rsq -> n -> n outcome **)

let rsq_get_unchecked r i =
  qv_get_unchecked r.rsq_qv i

(** val rsq_rank_intra_block : n -> rsq -> n -> n -> n outcome **)

let rsq_rank_intra_block bsize r symbol i =
  bind (odebug_assert (N.leb symbol (Npos (XI XH)))) (fun _ ->
    let data = r.rsq_qv.qv_data in
    if N.eqb bsize (Npos (XO (XO (XO (XO (XO (XO (XO (XO XH)))))))))
    then (match nthN data (N.shiftr i (Npos (XO (XO (XO XH))))) with
          | Some d ->
            line_rank_unchecked d symbol
              (N.coq_land i (Npos (XI (XI (XI (XI (XI (XI (XI XH)))))))))
          | None -> Val N0)
    else let block_id = N.shiftr i (Npos (XI (XO (XO XH)))) in
         let offset_in_block =
           N.coq_land i (Npos (XI (XI (XI (XI (XI (XI (XI (XI XH)))))))))
         in
         let offset_first =
           if N.leb offset_in_block (Npos (XO (XO (XO (XO (XO (XO (XO (XO
                XH)))))))))
           then offset_in_block
           else Npos (XO (XO (XO (XO (XO (XO (XO (XO XH))))))))
         in
         bind
           (match nthN data (N.mul block_id (Npos (XO XH))) with
            | Some d -> line_rank_unchecked d symbol offset_first
            | None -> Val N0) (fun rank ->
           if N.ltb (Npos (XO (XO (XO (XO (XO (XO (XO (XO XH)))))))))
                offset_in_block
           then bind
                  (match nthN data
                           (N.add (N.mul block_id (Npos (XO XH))) (Npos XH)) with
                   | Some d ->
                     line_rank_unchecked d symbol
                       (N.sub offset_in_block (Npos (XO (XO (XO (XO (XO (XO
                         (XO (XO XH))))))))))
                   | None -> Val N0) (fun r2 -> Val (N.add rank r2))
           else Val rank))

(** val rsq_rank_unchecked : n -> rsq -> n -> n -> n outcome **)

let rsq_rank_unchecked bsize r symbol i =
  bind (odebug_assert (N.leb symbol (Npos (XI XH)))) (fun _ ->
    bind (rss_rank_block bsize r.rsq_rs symbol i) (fun a ->
      bind (rsq_rank_intra_block bsize r symbol i) (fun b -> Val (N.add a b))))

(** val rsq_rank : n -> rsq -> n -> n -> n option outcome **)

let rsq_rank bsize r symbol i =
  if (||) (N.ltb (Npos (XI XH)) symbol) (N.ltb (rsq_len r) i)
  then Val None
  else bind (rsq_rank_unchecked bsize r symbol i) (fun v -> Val (Some v))

(** val rsq_occs_unchecked : rsq -> n -> n outcome **)

let rsq_occs_unchecked r symbol =
  bind (odebug_assert (N.leb symbol (Npos (XI XH)))) (fun _ ->
    bind
      (idx r.rsq_occs_smaller
        (N.modulo (N.add symbol (Npos XH)) (Npos (XO (XO (XO (XO (XO (XO (XO
          (XO XH))))))))))) (fun a ->
      bind (idx r.rsq_occs_smaller symbol) (fun b -> osub a b)))

(** val rsq_occs : rsq -> n -> n option outcome **)

let rsq_occs r symbol =
  if N.ltb (Npos (XI XH)) symbol
  then Val None
  else bind (rsq_occs_unchecked r symbol) (fun v -> Val (Some v))

(** val rsq_occs_smaller_unchecked : rsq -> n -> n outcome **)

let rsq_occs_smaller_unchecked r symbol =
  bind (odebug_assert (N.leb symbol (Npos (XI XH)))) (fun _ ->
    idx r.rsq_occs_smaller symbol)

(** val rsq_occs_smaller_q : rsq -> n -> n option outcome **)

let rsq_occs_smaller_q r symbol =
  if N.ltb (Npos (XI XH)) symbol
  then Val None
  else bind (rsq_occs_smaller_unchecked r symbol) (fun v -> Val (Some v))

(** val find_kth : n -> n list -> n -> n -> n option **)

let rec find_kth symbol l k pos =
  match l with
  | [] -> None
  | x :: l' ->
    if N.eqb x symbol
    then if N.eqb k N0
         then Some pos
         else find_kth symbol l' (N.pred k) (N.add pos (Npos XH))
    else find_kth symbol l' k (N.add pos (Npos XH))

(** val half_select : n -> n list -> n -> n **)

let half_select symbol h k =
  match find_kth symbol h k N0 with
  | Some p -> p
  | None -> Npos (XO (XO (XO (XO (XO (XO (XO XH)))))))

(** val sel_line : n -> n list -> n -> n -> (n option * n) * n **)

let sel_line symbol d i result =
  let w0 =
    firstn (S (S (S (S (S (S (S (S (S (S (S (S (S (S (S (S (S (S (S (S (S (S
      (S (S (S (S (S (S (S (S (S (S (S (S (S (S (S (S (S (S (S (S (S (S (S (S
      (S (S (S (S (S (S (S (S (S (S (S (S (S (S (S (S (S (S (S (S (S (S (S (S
      (S (S (S (S (S (S (S (S (S (S (S (S (S (S (S (S (S (S (S (S (S (S (S (S
      (S (S (S (S (S (S (S (S (S (S (S (S (S (S (S (S (S (S (S (S (S (S (S (S
      (S (S (S (S (S (S (S (S (S (S
      O))))))))))))))))))))))))))))))))))))))))))))))))))))))))))))))))))))))))))))))))))))))))))))))))))))))))))))))))))))))))))))))))
      d
  in
  let w1 =
    skipn (S (S (S (S (S (S (S (S (S (S (S (S (S (S (S (S (S (S (S (S (S (S
      (S (S (S (S (S (S (S (S (S (S (S (S (S (S (S (S (S (S (S (S (S (S (S (S
      (S (S (S (S (S (S (S (S (S (S (S (S (S (S (S (S (S (S (S (S (S (S (S (S
      (S (S (S (S (S (S (S (S (S (S (S (S (S (S (S (S (S (S (S (S (S (S (S (S
      (S (S (S (S (S (S (S (S (S (S (S (S (S (S (S (S (S (S (S (S (S (S (S (S
      (S (S (S (S (S (S (S (S (S (S
      O))))))))))))))))))))))))))))))))))))))))))))))))))))))))))))))))))))))))))))))))))))))))))))))))))))))))))))))))))))))))))))))))
      d
  in
  let cnt0 = countN symbol w0 in
  if N.ltb i cnt0
  then (((Some (N.add result (half_select symbol w0 i))), i), result)
  else let i0 = N.sub i cnt0 in
       let result0 = N.add result (Npos (XO (XO (XO (XO (XO (XO (XO XH))))))))
       in
       let cnt1 = countN symbol w1 in
       if N.ltb i0 cnt1
       then (((Some (N.add result0 (half_select symbol w1 i0))), i0), result0)
       else ((None, (N.sub i0 cnt1)),
              (N.add result0 (Npos (XO (XO (XO (XO (XO (XO (XO XH))))))))))

(** val rsq_select_intra_block : n -> rsq -> n -> n -> n -> n outcome **)

let rsq_select_intra_block bsize r symbol i pos =
  let line_id = N.shiftr pos (Npos (XO (XO (XO XH)))) in
  bind (osub i (Npos XH)) (fun i0 ->
    let data = r.rsq_qv.qv_data in
    bind (uidx data line_id) (fun d0 ->
      let (p0, res1) = sel_line symbol d0 i0 N0 in
      let (o, i1) = p0 in
      (match o with
       | Some p -> Val p
       | None ->
         if N.eqb bsize (Npos (XO (XO (XO (XO (XO (XO (XO (XO XH)))))))))
         then Val N0
         else bind (uidx data (N.add line_id (Npos XH))) (fun d1 ->
                let (p1, _) = sel_line symbol d1 i1 res1 in
                let (o0, _) = p1 in
                (match o0 with
                 | Some p -> Val p
                 | None -> Val N0)))))

(** val rsq_select : n -> rsq -> n -> n -> n option outcome **)

let rsq_select bsize r symbol i =
  if N.ltb (Npos (XI XH)) symbol
  then Val None
  else bind (rsq_occs_unchecked r symbol) (fun occ ->
         if N.leb occ i
         then Val None
         else bind (oadd (Npos (XO (XO (XO (XO (XO (XO XH))))))) i (Npos XH))
                (fun i1 ->
                bind (rss_select_block bsize r.rsq_rs symbol i1) (fun pat ->
                  let (pos, rank) = pat in
                  bind (osub i rank) (fun t ->
                    bind
                      (oadd (Npos (XO (XO (XO (XO (XO (XO XH))))))) t (Npos
                        XH)) (fun t1 ->
                      bind (rsq_select_intra_block bsize r symbol t1 pos)
                        (fun off -> Val (Some (N.add pos off))))))))

(** val rsq_select_unchecked : n -> rsq -> n -> n -> n outcome **)

let rsq_select_unchecked bsize r symbol i =
  bind (odebug_assert (N.leb symbol (Npos (XI XH)))) (fun _ ->
    bind (rsq_occs r symbol) (fun o ->
      bind
        (odebug_assert (match o with
                        | Some oc -> N.ltb i oc
                        | None -> false)) (fun _ ->
        bind (rsq_select bsize r symbol i) ounwrap)))

(** val mapo : ('a1 -> 'a2 outcome) -> 'a1 list -> 'a2 list outcome **)

let rec mapo f = function
| [] -> Val []
| x :: l' -> bind (f x) (fun y -> bind (mapo f l') (fun r -> Val (y :: r)))

(** val msb : n -> n **)

let msb v =
  if N.eqb v N0 then N0 else N.log2 v

(** val two_bits : n -> n -> n -> n outcome **)

let two_bits w x shift =
  bind (oshr w x shift) (fun y -> Val
    (N.coq_land
      (N.modulo y
        (N.pow (Npos (XO XH)) (Npos (XO (XO (XO (XO (XO (XO XH))))))))) (Npos
      (XI XH))))

(** val stable_partition_of_4 : n -> n list -> n -> n list outcome **)

let stable_partition_of_4 w seq shift =
  bind (mapo (fun a -> two_bits w a shift) seq) (fun ds ->
    let tagged = combine ds seq in
    let pick = fun d -> map snd (filter (fun p -> N.eqb (fst p) d) tagged) in
    Val
    (app (pick N0)
      (app (pick (Npos XH)) (app (pick (Npos (XO XH))) (pick (Npos (XI XH)))))))

type qwt = { q_n : n; q_n_levels : n; q_sigma : n; q_qvs : rsq list }

(** val qwt_levels : n -> n -> n list -> n -> nat -> rsq list outcome **)

let rec qwt_levels w bsize seq shift = function
| O -> Val []
| S k ->
  bind (mapo (fun s -> two_bits w s shift) seq) (fun digits ->
    bind (qvb_push_all qvb_new digits) (fun qv ->
      bind (rsq_from_qv bsize qv) (fun rs ->
        bind (stable_partition_of_4 w seq shift) (fun seq' ->
          bind
            (qwt_levels w bsize seq'
              (if N.leb (Npos (XO XH)) shift
               then N.sub shift (Npos (XO XH))
               else shift) k) (fun rest -> Val (rs :: rest))))))

(** val qwt_new : n -> n -> n list -> qwt outcome **)

let qwt_new w bsize seq = match seq with
| [] ->
  bind (rsq_default bsize) (fun d -> Val { q_n = N0; q_n_levels = N0;
    q_sigma = N0; q_qvs = (d :: []) })
| _ :: _ ->
  let sigma = maxN seq in
  let log_sigma = N.add (msb sigma) (Npos XH) in
  let n_levels = N.div (N.add log_sigma (Npos XH)) (Npos (XO XH)) in
  bind (osub n_levels (Npos XH)) (fun s0 ->
    bind
      (qwt_levels w bsize seq (N.mul (Npos (XO XH)) s0) (N.to_nat n_levels))
      (fun qvs -> Val { q_n = (len seq); q_n_levels = n_levels; q_sigma =
      sigma; q_qvs = qvs }))

(** val qwt_default : qwt **)

let qwt_default =
  { q_n = N0; q_n_levels = N0; q_sigma = N0; q_qvs = [] }

(** val qwt_len : qwt -> n **)

let qwt_len t =
  t.q_n

(** val qwt_is_empty : qwt -> bool **)

let qwt_is_empty t =
  N.eqb t.q_n N0

(** val qwt_sigma : qwt -> n option **)

let qwt_sigma t =
  if qwt_is_empty t then None else Some t.q_sigma

(** val qwt_rank_walk :
    n -> n -> rsq list -> n -> n -> n -> n -> n -> nat -> ((n * n) * n)
    outcome **)

let rec qwt_rank_walk w bsize qvs symbol shift cur_p cur_i level = function
| O -> Val ((cur_p, cur_i), shift)
| S k ->
  bind (two_bits w symbol shift) (fun tb ->
    bind (idx qvs level) (fun qv ->
      bind (rsq_occs_smaller_unchecked qv tb) (fun offset ->
        bind (rsq_rank_unchecked bsize qv tb cur_p) (fun rp ->
          bind (rsq_rank_unchecked bsize qv tb cur_i) (fun ri ->
            bind (osub shift (Npos (XO XH))) (fun shift' ->
              qwt_rank_walk w bsize qvs symbol shift' (N.add rp offset)
                (N.add ri offset) (N.add level (Npos XH)) k))))))

(** val qwt_rank_unchecked : n -> n -> qwt -> n -> n -> n outcome **)

let qwt_rank_unchecked w bsize t symbol i =
  bind (osub t.q_n_levels (Npos XH)) (fun l1 ->
    bind
      (qwt_rank_walk w bsize t.q_qvs symbol (N.mul (Npos (XO XH)) l1) N0 i N0
        (N.to_nat l1)) (fun pat ->
      let (p, shift) = pat in
      let (cur_p, cur_i) = p in
      bind (two_bits w symbol shift) (fun tb ->
        bind (idx t.q_qvs l1) (fun qv ->
          bind (rsq_rank_unchecked bsize qv tb cur_i) (fun ci ->
            bind (rsq_rank_unchecked bsize qv tb cur_p) (fun cp -> osub ci cp))))))

(** val qwt_rank : n -> n -> qwt -> n -> n -> n option outcome **)

let qwt_rank w bsize t symbol i =
  if (||) ((||) (N.ltb t.q_n i) (N.ltb t.q_sigma symbol)) (N.eqb t.q_n N0)
  then Val None
  else bind (qwt_rank_unchecked w bsize t symbol i) (fun v -> Val (Some v))

(** val qwt_get_walk :
    n -> n -> rsq list -> n -> n -> n -> nat -> (n * n) outcome **)

let rec qwt_get_walk w bsize qvs result cur_i level = function
| O -> Val (result, cur_i)
| S k ->
  bind (idx qvs level) (fun qv ->
    bind (rsq_get_unchecked qv cur_i) (fun symbol ->
      let result' =
        N.coq_lor
          (N.modulo (N.shiftl result (Npos (XO XH))) (N.pow (Npos (XO XH)) w))
          symbol
      in
      bind (rsq_occs_smaller_unchecked qv symbol) (fun offset ->
        bind (rsq_rank_unchecked bsize qv symbol cur_i) (fun r ->
          qwt_get_walk w bsize qvs result' (N.add r offset)
            (N.add level (Npos XH)) k))))

(** val qwt_get_unchecked : n -> n -> qwt -> n -> n outcome **)

let qwt_get_unchecked w bsize t i =
  bind (osub t.q_n_levels (Npos XH)) (fun l1 ->
    bind (qwt_get_walk w bsize t.q_qvs N0 i N0 (N.to_nat l1)) (fun pat ->
      let (result, cur_i) = pat in
      bind (idx t.q_qvs l1) (fun qv ->
        bind (rsq_get_unchecked qv cur_i) (fun symbol -> Val
          (N.coq_lor
            (N.modulo (N.shiftl result (Npos (XO XH)))
              (N.pow (Npos (XO XH)) w)) symbol)))))

(** val qwt_get : n -> n -> qwt -> n -> n option outcome **)

let qwt_get w bsize t i =
  if N.leb t.q_n i
  then Val None
  else bind (qwt_get_unchecked w bsize t i) (fun v -> Val (Some v))

(** val qwt_select_down :
    n -> n -> rsq list -> n -> n -> n -> n -> nat -> (n * n) list option
    outcome **)

let rec qwt_select_down w bsize qvs symbol shift b level = function
| O -> Val (Some [])
| S k ->
  bind (two_bits w symbol shift) (fun tb ->
    bind (idx qvs level) (fun qv ->
      bind (rsq_rank bsize qv tb b) (fun r ->
        match r with
        | Some rank_b ->
          bind (rsq_occs_smaller_unchecked qv tb) (fun offset ->
            let b' = N.add rank_b offset in
            let shift' =
              if N.leb (Npos (XO XH)) shift
              then N.sub shift (Npos (XO XH))
              else N0
            in
            bind
              (qwt_select_down w bsize qvs symbol shift' b'
                (N.add level (Npos XH)) k) (fun rest ->
              match rest with
              | Some l -> Val (Some ((b, rank_b) :: l))
              | None -> Val None))
        | None -> Val None)))

(** val qwt_select_up :
    n -> n -> rsq list -> n -> n -> n -> ((n * n) * n) list -> n option
    outcome **)

let rec qwt_select_up w bsize qvs symbol shift result = function
| [] -> Val (Some result)
| p :: rest ->
  let (p0, rank_b) = p in
  let (level, b) = p0 in
  bind (two_bits w symbol shift) (fun tb ->
    bind (idx qvs level) (fun qv ->
      if N.leb (N.pow (Npos (XO XH)) (Npos (XO (XO (XO (XO (XO (XO XH))))))))
           (N.add rank_b result)
      then Val None
      else bind (rsq_select bsize qv tb (N.add rank_b result)) (fun s ->
             match s with
             | Some p1 ->
               bind (osub p1 b) (fun r' ->
                 qwt_select_up w bsize qvs symbol
                   (N.add shift (Npos (XO XH))) r' rest)
             | None -> Val None)))

(** val number_levels : 'a1 list -> n -> (n * 'a1) list **)

let rec number_levels l level =
  match l with
  | [] -> []
  | x :: l' -> (level, x) :: (number_levels l' (N.add level (Npos XH)))

(** val qwt_select : n -> n -> qwt -> n -> n -> n option outcome **)

let qwt_select w bsize t symbol i =
  if (||) (N.ltb t.q_sigma symbol) (N.eqb t.q_n N0)
  then Val None
  else bind (osub t.q_n_levels (Npos XH)) (fun l1 ->
         bind
           (qwt_select_down w bsize t.q_qvs symbol (N.mul (Npos (XO XH)) l1)
             N0 N0 (N.to_nat t.q_n_levels)) (fun down ->
           match down with
           | Some path ->
             let numbered =
               map (fun pat ->
                 let (lv, y) = pat in let (b, rb) = y in ((lv, b), rb))
                 (number_levels path N0)
             in
             qwt_select_up w bsize t.q_qvs symbol N0 i (rev numbered)
           | None -> Val None))

(** val qwt_select_unchecked : n -> n -> qwt -> n -> n -> n outcome **)

let qwt_select_unchecked w bsize t symbol i =
  bind (qwt_select w bsize t symbol i) ounwrap

(** val qwt_estimate_walk :
    n -> n -> rsq list -> n -> n -> n -> n -> n -> nat -> unit outcome **)

let rec qwt_estimate_walk w bsize qvs symbol shift rs re level = function
| O -> Val ()
| S k ->
  bind (two_bits w symbol shift) (fun tb ->
    bind (idx qvs level) (fun qv ->
      bind (rsq_occs_smaller_unchecked qv tb) (fun offset ->
        bind (rss_rank_block bsize qv.rsq_rs tb rs) (fun a ->
          bind (rss_rank_block bsize qv.rsq_rs tb re) (fun b ->
            bind (idx qvs (N.add level (Npos XH))) (fun _ ->
              bind (osub shift (Npos (XO XH))) (fun shift' ->
                qwt_estimate_walk w bsize qvs symbol shift' (N.add a offset)
                  (N.add b offset) (N.add level (Npos XH)) k)))))))

(** val qwt_rank_prefetch_unchecked : n -> n -> qwt -> n -> n -> n outcome **)

let qwt_rank_prefetch_unchecked w bsize t symbol i =
  bind (osub t.q_n_levels (Npos XH)) (fun l1 ->
    bind (idx t.q_qvs N0) (fun _ ->
      bind
        (qwt_estimate_walk w bsize t.q_qvs symbol (N.mul (Npos (XO XH)) l1)
          N0 i N0 (N.to_nat l1)) (fun _ ->
        qwt_rank_unchecked w bsize t symbol i)))

(** val qwt_rank_prefetch : n -> n -> qwt -> n -> n -> n option outcome **)

let qwt_rank_prefetch w bsize t symbol i =
  if (||) ((||) (N.ltb t.q_n i) (N.ltb t.q_sigma symbol)) (N.eqb t.q_n N0)
  then Val None
  else bind (qwt_rank_prefetch_unchecked w bsize t symbol i) (fun v -> Val
         (Some v))

(** val sel_table : n list **)

let sel_table =
  (Npos (XO (XO (XO XH)))) :: (N0 :: ((Npos XH) :: (N0 :: ((Npos (XO
    XH)) :: (N0 :: ((Npos XH) :: (N0 :: ((Npos (XI XH)) :: (N0 :: ((Npos
    XH) :: (N0 :: ((Npos (XO XH)) :: (N0 :: ((Npos XH) :: (N0 :: ((Npos (XO
    (XO XH))) :: (N0 :: ((Npos XH) :: (N0 :: ((Npos (XO XH)) :: (N0 :: ((Npos
    XH) :: (N0 :: ((Npos (XI XH)) :: (N0 :: ((Npos XH) :: (N0 :: ((Npos (XO
    XH)) :: (N0 :: ((Npos XH) :: (N0 :: ((Npos (XI (XO XH))) :: (N0 :: ((Npos
    XH) :: (N0 :: ((Npos (XO XH)) :: (N0 :: ((Npos XH) :: (N0 :: ((Npos (XI
    XH)) :: (N0 :: ((Npos XH) :: (N0 :: ((Npos (XO XH)) :: (N0 :: ((Npos
    XH) :: (N0 :: ((Npos (XO (XO XH))) :: (N0 :: ((Npos XH) :: (N0 :: ((Npos
    (XO XH)) :: (N0 :: ((Npos XH) :: (N0 :: ((Npos (XI XH)) :: (N0 :: ((Npos
    XH) :: (N0 :: ((Npos (XO XH)) :: (N0 :: ((Npos XH) :: (N0 :: ((Npos (XO
    (XI XH))) :: (N0 :: ((Npos XH) :: (N0 :: ((Npos (XO XH)) :: (N0 :: ((Npos
    XH) :: (N0 :: ((Npos (XI XH)) :: (N0 :: ((Npos XH) :: (N0 :: ((Npos (XO
    XH)) :: (N0 :: ((Npos XH) :: (N0 :: ((Npos (XO (XO XH))) :: (N0 :: ((Npos
    XH) :: (N0 :: ((Npos (XO XH)) :: (N0 :: ((Npos XH) :: (N0 :: ((Npos (XI
    XH)) :: (N0 :: ((Npos XH) :: (N0 :: ((Npos (XO XH)) :: (N0 :: ((Npos
    XH) :: (N0 :: ((Npos (XI (XO XH))) :: (N0 :: ((Npos XH) :: (N0 :: ((Npos
    (XO XH)) :: (N0 :: ((Npos XH) :: (N0 :: ((Npos (XI XH)) :: (N0 :: ((Npos
    XH) :: (N0 :: ((Npos (XO XH)) :: (N0 :: ((Npos XH) :: (N0 :: ((Npos (XO
    (XO XH))) :: (N0 :: ((Npos XH) :: (N0 :: ((Npos (XO XH)) :: (N0 :: ((Npos
    XH) :: (N0 :: ((Npos (XI XH)) :: (N0 :: ((Npos XH) :: (N0 :: ((Npos (XO
    XH)) :: (N0 :: ((Npos XH) :: (N0 :: ((Npos (XI (XI XH))) :: (N0 :: ((Npos
    XH) :: (N0 :: ((Npos (XO XH)) :: (N0 :: ((Npos XH) :: (N0 :: ((Npos (XI
    XH)) :: (N0 :: ((Npos XH) :: (N0 :: ((Npos (XO XH)) :: (N0 :: ((Npos
    XH) :: (N0 :: ((Npos (XO (XO XH))) :: (N0 :: ((Npos XH) :: (N0 :: ((Npos
    (XO XH)) :: (N0 :: ((Npos XH) :: (N0 :: ((Npos (XI XH)) :: (N0 :: ((Npos
    XH) :: (N0 :: ((Npos (XO XH)) :: (N0 :: ((Npos XH) :: (N0 :: ((Npos (XI
    (XO XH))) :: (N0 :: ((Npos XH) :: (N0 :: ((Npos (XO XH)) :: (N0 :: ((Npos
    XH) :: (N0 :: ((Npos (XI XH)) :: (N0 :: ((Npos XH) :: (N0 :: ((Npos (XO
    XH)) :: (N0 :: ((Npos XH) :: (N0 :: ((Npos (XO (XO XH))) :: (N0 :: ((Npos
    XH) :: (N0 :: ((Npos (XO XH)) :: (N0 :: ((Npos XH) :: (N0 :: ((Npos (XI
    XH)) :: (N0 :: ((Npos XH) :: (N0 :: ((Npos (XO XH)) :: (N0 :: ((Npos
    XH) :: (N0 :: ((Npos (XO (XI XH))) :: (N0 :: ((Npos XH) :: (N0 :: ((Npos
    (XO XH)) :: (N0 :: ((Npos XH) :: (N0 :: ((Npos (XI XH)) :: (N0 :: ((Npos
    XH) :: (N0 :: ((Npos (XO XH)) :: (N0 :: ((Npos XH) :: (N0 :: ((Npos (XO
    (XO XH))) :: (N0 :: ((Npos XH) :: (N0 :: ((Npos (XO XH)) :: (N0 :: ((Npos
    XH) :: (N0 :: ((Npos (XI XH)) :: (N0 :: ((Npos XH) :: (N0 :: ((Npos (XO
    XH)) :: (N0 :: ((Npos XH) :: (N0 :: ((Npos (XI (XO XH))) :: (N0 :: ((Npos
    XH) :: (N0 :: ((Npos (XO XH)) :: (N0 :: ((Npos XH) :: (N0 :: ((Npos (XI
    XH)) :: (N0 :: ((Npos XH) :: (N0 :: ((Npos (XO XH)) :: (N0 :: ((Npos
    XH) :: (N0 :: ((Npos (XO (XO XH))) :: (N0 :: ((Npos XH) :: (N0 :: ((Npos
    (XO XH)) :: (N0 :: ((Npos XH) :: (N0 :: ((Npos (XI XH)) :: (N0 :: ((Npos
    XH) :: (N0 :: ((Npos (XO XH)) :: (N0 :: ((Npos XH) :: (N0 :: ((Npos (XO
    (XO (XO XH)))) :: ((Npos (XO (XO (XO XH)))) :: ((Npos (XO (XO (XO
    XH)))) :: ((Npos XH) :: ((Npos (XO (XO (XO XH)))) :: ((Npos (XO
    XH)) :: ((Npos (XO XH)) :: ((Npos XH) :: ((Npos (XO (XO (XO
    XH)))) :: ((Npos (XI XH)) :: ((Npos (XI XH)) :: ((Npos XH) :: ((Npos (XI
    XH)) :: ((Npos (XO XH)) :: ((Npos (XO XH)) :: ((Npos XH) :: ((Npos (XO
    (XO (XO XH)))) :: ((Npos (XO (XO XH))) :: ((Npos (XO (XO XH))) :: ((Npos
    XH) :: ((Npos (XO (XO XH))) :: ((Npos (XO XH)) :: ((Npos (XO
    XH)) :: ((Npos XH) :: ((Npos (XO (XO XH))) :: ((Npos (XI XH)) :: ((Npos
    (XI XH)) :: ((Npos XH) :: ((Npos (XI XH)) :: ((Npos (XO XH)) :: ((Npos
    (XO XH)) :: ((Npos XH) :: ((Npos (XO (XO (XO XH)))) :: ((Npos (XI (XO
    XH))) :: ((Npos (XI (XO XH))) :: ((Npos XH) :: ((Npos (XI (XO
    XH))) :: ((Npos (XO XH)) :: ((Npos (XO XH)) :: ((Npos XH) :: ((Npos (XI
    (XO XH))) :: ((Npos (XI XH)) :: ((Npos (XI XH)) :: ((Npos XH) :: ((Npos
    (XI XH)) :: ((Npos (XO XH)) :: ((Npos (XO XH)) :: ((Npos XH) :: ((Npos
    (XI (XO XH))) :: ((Npos (XO (XO XH))) :: ((Npos (XO (XO XH))) :: ((Npos
    XH) :: ((Npos (XO (XO XH))) :: ((Npos (XO XH)) :: ((Npos (XO
    XH)) :: ((Npos XH) :: ((Npos (XO (XO XH))) :: ((Npos (XI XH)) :: ((Npos
    (XI XH)) :: ((Npos XH) :: ((Npos (XI XH)) :: ((Npos (XO XH)) :: ((Npos
    (XO XH)) :: ((Npos XH) :: ((Npos (XO (XO (XO XH)))) :: ((Npos (XO (XI
    XH))) :: ((Npos (XO (XI XH))) :: ((Npos XH) :: ((Npos (XO (XI
    XH))) :: ((Npos (XO XH)) :: ((Npos (XO XH)) :: ((Npos XH) :: ((Npos (XO
    (XI XH))) :: ((Npos (XI XH)) :: ((Npos (XI XH)) :: ((Npos XH) :: ((Npos
    (XI XH)) :: ((Npos (XO XH)) :: ((Npos (XO XH)) :: ((Npos XH) :: ((Npos
    (XO (XI XH))) :: ((Npos (XO (XO XH))) :: ((Npos (XO (XO XH))) :: ((Npos
    XH) :: ((Npos (XO (XO XH))) :: ((Npos (XO XH)) :: ((Npos (XO
    XH)) :: ((Npos XH) :: ((Npos (XO (XO XH))) :: ((Npos (XI XH)) :: ((Npos
    (XI XH)) :: ((Npos XH) :: ((Npos (XI XH)) :: ((Npos (XO XH)) :: ((Npos
    (XO XH)) :: ((Npos XH) :: ((Npos (XO (XI XH))) :: ((Npos (XI (XO
    XH))) :: ((Npos (XI (XO XH))) :: ((Npos XH) :: ((Npos (XI (XO
    XH))) :: ((Npos (XO XH)) :: ((Npos (XO XH)) :: ((Npos XH) :: ((Npos (XI
    (XO XH))) :: ((Npos (XI XH)) :: ((Npos (XI XH)) :: ((Npos XH) :: ((Npos
    (XI XH)) :: ((Npos (XO XH)) :: ((Npos (XO XH)) :: ((Npos XH) :: ((Npos
    (XI (XO XH))) :: ((Npos (XO (XO XH))) :: ((Npos (XO (XO XH))) :: ((Npos
    XH) :: ((Npos (XO (XO XH))) :: ((Npos (XO XH)) :: ((Npos (XO
    XH)) :: ((Npos XH) :: ((Npos (XO (XO XH))) :: ((Npos (XI XH)) :: ((Npos
    (XI XH)) :: ((Npos XH) :: ((Npos (XI XH)) :: ((Npos (XO XH)) :: ((Npos
    (XO XH)) :: ((Npos XH) :: ((Npos (XO (XO (XO XH)))) :: ((Npos (XI (XI
    XH))) :: ((Npos (XI (XI XH))) :: ((Npos XH) :: ((Npos (XI (XI
    XH))) :: ((Npos (XO XH)) :: ((Npos (XO XH)) :: ((Npos XH) :: ((Npos (XI
    (XI XH))) :: ((Npos (XI XH)) :: ((Npos (XI XH)) :: ((Npos XH) :: ((Npos
    (XI XH)) :: ((Npos (XO XH)) :: ((Npos (XO XH)) :: ((Npos XH) :: ((Npos
    (XI (XI XH))) :: ((Npos (XO (XO XH))) :: ((Npos (XO (XO XH))) :: ((Npos
    XH) :: ((Npos (XO (XO XH))) :: ((Npos (XO XH)) :: ((Npos (XO
    XH)) :: ((Npos XH) :: ((Npos (XO (XO XH))) :: ((Npos (XI XH)) :: ((Npos
    (XI XH)) :: ((Npos XH) :: ((Npos (XI XH)) :: ((Npos (XO XH)) :: ((Npos
    (XO XH)) :: ((Npos XH) :: ((Npos (XI (XI XH))) :: ((Npos (XI (XO
    XH))) :: ((Npos (XI (XO XH))) :: ((Npos XH) :: ((Npos (XI (XO
    XH))) :: ((Npos (XO XH)) :: ((Npos (XO XH)) :: ((Npos XH) :: ((Npos (XI
    (XO XH))) :: ((Npos (XI XH)) :: ((Npos (XI XH)) :: ((Npos XH) :: ((Npos
    (XI XH)) :: ((Npos (XO XH)) :: ((Npos (XO XH)) :: ((Npos XH) :: ((Npos
    (XI (XO XH))) :: ((Npos (XO (XO XH))) :: ((Npos (XO (XO XH))) :: ((Npos
    XH) :: ((Npos (XO (XO XH))) :: ((Npos (XO XH)) :: ((Npos (XO
    XH)) :: ((Npos XH) :: ((Npos (XO (XO XH))) :: ((Npos (XI XH)) :: ((Npos
    (XI XH)) :: ((Npos XH) :: ((Npos (XI XH)) :: ((Npos (XO XH)) :: ((Npos
    (XO XH)) :: ((Npos XH) :: ((Npos (XI (XI XH))) :: ((Npos (XO (XI
    XH))) :: ((Npos (XO (XI XH))) :: ((Npos XH) :: ((Npos (XO (XI
    XH))) :: ((Npos (XO XH)) :: ((Npos (XO XH)) :: ((Npos XH) :: ((Npos (XO
    (XI XH))) :: ((Npos (XI XH)) :: ((Npos (XI XH)) :: ((Npos XH) :: ((Npos
    (XI XH)) :: ((Npos (XO XH)) :: ((Npos (XO XH)) :: ((Npos XH) :: ((Npos
    (XO (XI XH))) :: ((Npos (XO (XO XH))) :: ((Npos (XO (XO XH))) :: ((Npos
    XH) :: ((Npos (XO (XO XH))) :: ((Npos (XO XH)) :: ((Npos (XO
    XH)) :: ((Npos XH) :: ((Npos (XO (XO XH))) :: ((Npos (XI XH)) :: ((Npos
    (XI XH)) :: ((Npos XH) :: ((Npos (XI XH)) :: ((Npos (XO XH)) :: ((Npos
    (XO XH)) :: ((Npos XH) :: ((Npos (XO (XI XH))) :: ((Npos (XI (XO
    XH))) :: ((Npos (XI (XO XH))) :: ((Npos XH) :: ((Npos (XI (XO
    XH))) :: ((Npos (XO XH)) :: ((Npos (XO XH)) :: ((Npos XH) :: ((Npos (XI
    (XO XH))) :: ((Npos (XI XH)) :: ((Npos (XI XH)) :: ((Npos XH) :: ((Npos
    (XI XH)) :: ((Npos (XO XH)) :: ((Npos (XO XH)) :: ((Npos XH) :: ((Npos
    (XI (XO XH))) :: ((Npos (XO (XO XH))) :: ((Npos (XO (XO XH))) :: ((Npos
    XH) :: ((Npos (XO (XO XH))) :: ((Npos (XO XH)) :: ((Npos (XO
    XH)) :: ((Npos XH) :: ((Npos (XO (XO XH))) :: ((Npos (XI XH)) :: ((Npos
    (XI XH)) :: ((Npos XH) :: ((Npos (XI XH)) :: ((Npos (XO XH)) :: ((Npos
    (XO XH)) :: ((Npos XH) :: ((Npos (XO (XO (XO XH)))) :: ((Npos (XO (XO (XO
    XH)))) :: ((Npos (XO (XO (XO XH)))) :: ((Npos (XO (XO (XO
    XH)))) :: ((Npos (XO (XO (XO XH)))) :: ((Npos (XO (XO (XO
    XH)))) :: ((Npos (XO (XO (XO XH)))) :: ((Npos (XO XH)) :: ((Npos (XO (XO
    (XO XH)))) :: ((Npos (XO (XO (XO XH)))) :: ((Npos (XO (XO (XO
    XH)))) :: ((Npos (XI XH)) :: ((Npos (XO (XO (XO XH)))) :: ((Npos (XI
    XH)) :: ((Npos (XI XH)) :: ((Npos (XO XH)) :: ((Npos (XO (XO (XO
    XH)))) :: ((Npos (XO (XO (XO XH)))) :: ((Npos (XO (XO (XO
    XH)))) :: ((Npos (XO (XO XH))) :: ((Npos (XO (XO (XO XH)))) :: ((Npos (XO
    (XO XH))) :: ((Npos (XO (XO XH))) :: ((Npos (XO XH)) :: ((Npos (XO (XO
    (XO XH)))) :: ((Npos (XO (XO XH))) :: ((Npos (XO (XO XH))) :: ((Npos (XI
    XH)) :: ((Npos (XO (XO XH))) :: ((Npos (XI XH)) :: ((Npos (XI
    XH)) :: ((Npos (XO XH)) :: ((Npos (XO (XO (XO XH)))) :: ((Npos (XO (XO
    (XO XH)))) :: ((Npos (XO (XO (XO XH)))) :: ((Npos (XI (XO XH))) :: ((Npos
    (XO (XO (XO XH)))) :: ((Npos (XI (XO XH))) :: ((Npos (XI (XO
    XH))) :: ((Npos (XO XH)) :: ((Npos (XO (XO (XO XH)))) :: ((Npos (XI (XO
    XH))) :: ((Npos (XI (XO XH))) :: ((Npos (XI XH)) :: ((Npos (XI (XO
    XH))) :: ((Npos (XI XH)) :: ((Npos (XI XH)) :: ((Npos (XO XH)) :: ((Npos
    (XO (XO (XO XH)))) :: ((Npos (XI (XO XH))) :: ((Npos (XI (XO
    XH))) :: ((Npos (XO (XO XH))) :: ((Npos (XI (XO XH))) :: ((Npos (XO (XO
    XH))) :: ((Npos (XO (XO XH))) :: ((Npos (XO XH)) :: ((Npos (XI (XO
    XH))) :: ((Npos (XO (XO XH))) :: ((Npos (XO (XO XH))) :: ((Npos (XI
    XH)) :: ((Npos (XO (XO XH))) :: ((Npos (XI XH)) :: ((Npos (XI
    XH)) :: ((Npos (XO XH)) :: ((Npos (XO (XO (XO XH)))) :: ((Npos (XO (XO
    (XO XH)))) :: ((Npos (XO (XO (XO XH)))) :: ((Npos (XO (XI XH))) :: ((Npos
    (XO (XO (XO XH)))) :: ((Npos (XO (XI XH))) :: ((Npos (XO (XI
    XH))) :: ((Npos (XO XH)) :: ((Npos (XO (XO (XO XH)))) :: ((Npos (XO (XI
    XH))) :: ((Npos (XO (XI XH))) :: ((Npos (XI XH)) :: ((Npos (XO (XI
    XH))) :: ((Npos (XI XH)) :: ((Npos (XI XH)) :: ((Npos (XO XH)) :: ((Npos
    (XO (XO (XO XH)))) :: ((Npos (XO (XI XH))) :: ((Npos (XO (XI
    XH))) :: ((Npos (XO (XO XH))) :: ((Npos (XO (XI XH))) :: ((Npos (XO (XO
    XH))) :: ((Npos (XO (XO XH))) :: ((Npos (XO XH)) :: ((Npos (XO (XI
    XH))) :: ((Npos (XO (XO XH))) :: ((Npos (XO (XO XH))) :: ((Npos (XI
    XH)) :: ((Npos (XO (XO XH))) :: ((Npos (XI XH)) :: ((Npos (XI
    XH)) :: ((Npos (XO XH)) :: ((Npos (XO (XO (XO XH)))) :: ((Npos (XO (XI
    XH))) :: ((Npos (XO (XI XH))) :: ((Npos (XI (XO XH))) :: ((Npos (XO (XI
    XH))) :: ((Npos (XI (XO XH))) :: ((Npos (XI (XO XH))) :: ((Npos (XO
    XH)) :: ((Npos (XO (XI XH))) :: ((Npos (XI (XO XH))) :: ((Npos (XI (XO
    XH))) :: ((Npos (XI XH)) :: ((Npos (XI (XO XH))) :: ((Npos (XI
    XH)) :: ((Npos (XI XH)) :: ((Npos (XO XH)) :: ((Npos (XO (XI
    XH))) :: ((Npos (XI (XO XH))) :: ((Npos (XI (XO XH))) :: ((Npos (XO (XO
    XH))) :: ((Npos (XI (XO XH))) :: ((Npos (XO (XO XH))) :: ((Npos (XO (XO
    XH))) :: ((Npos (XO XH)) :: ((Npos (XI (XO XH))) :: ((Npos (XO (XO
    XH))) :: ((Npos (XO (XO XH))) :: ((Npos (XI XH)) :: ((Npos (XO (XO
    XH))) :: ((Npos (XI XH)) :: ((Npos (XI XH)) :: ((Npos (XO XH)) :: ((Npos
    (XO (XO (XO XH)))) :: ((Npos (XO (XO (XO XH)))) :: ((Npos (XO (XO (XO
    XH)))) :: ((Npos (XI (XI XH))) :: ((Npos (XO (XO (XO XH)))) :: ((Npos (XI
    (XI XH))) :: ((Npos (XI (XI XH))) :: ((Npos (XO XH)) :: ((Npos (XO (XO
    (XO XH)))) :: ((Npos (XI (XI XH))) :: ((Npos (XI (XI XH))) :: ((Npos (XI
    XH)) :: ((Npos (XI (XI XH))) :: ((Npos (XI XH)) :: ((Npos (XI
    XH)) :: ((Npos (XO XH)) :: ((Npos (XO (XO (XO XH)))) :: ((Npos (XI (XI
    XH))) :: ((Npos (XI (XI XH))) :: ((Npos (XO (XO XH))) :: ((Npos (XI (XI
    XH))) :: ((Npos (XO (XO XH))) :: ((Npos (XO (XO XH))) :: ((Npos (XO
    XH)) :: ((Npos (XI (XI XH))) :: ((Npos (XO (XO XH))) :: ((Npos (XO (XO
    XH))) :: ((Npos (XI XH)) :: ((Npos (XO (XO XH))) :: ((Npos (XI
    XH)) :: ((Npos (XI XH)) :: ((Npos (XO XH)) :: ((Npos (XO (XO (XO
    XH)))) :: ((Npos (XI (XI XH))) :: ((Npos (XI (XI XH))) :: ((Npos (XI (XO
    XH))) :: ((Npos (XI (XI XH))) :: ((Npos (XI (XO XH))) :: ((Npos (XI (XO
    XH))) :: ((Npos (XO XH)) :: ((Npos (XI (XI XH))) :: ((Npos (XI (XO
    XH))) :: ((Npos (XI (XO XH))) :: ((Npos (XI XH)) :: ((Npos (XI (XO
    XH))) :: ((Npos (XI XH)) :: ((Npos (XI XH)) :: ((Npos (XO XH)) :: ((Npos
    (XI (XI XH))) :: ((Npos (XI (XO XH))) :: ((Npos (XI (XO XH))) :: ((Npos
    (XO (XO XH))) :: ((Npos (XI (XO XH))) :: ((Npos (XO (XO XH))) :: ((Npos
    (XO (XO XH))) :: ((Npos (XO XH)) :: ((Npos (XI (XO XH))) :: ((Npos (XO
    (XO XH))) :: ((Npos (XO (XO XH))) :: ((Npos (XI XH)) :: ((Npos (XO (XO
    XH))) :: ((Npos (XI XH)) :: ((Npos (XI XH)) :: ((Npos (XO XH)) :: ((Npos
    (XO (XO (XO XH)))) :: ((Npos (XI (XI XH))) :: ((Npos (XI (XI
    XH))) :: ((Npos (XO (XI XH))) :: ((Npos (XI (XI XH))) :: ((Npos (XO (XI
    XH))) :: ((Npos (XO (XI XH))) :: ((Npos (XO XH)) :: ((Npos (XI (XI
    XH))) :: ((Npos (XO (XI XH))) :: ((Npos (XO (XI XH))) :: ((Npos (XI
    XH)) :: ((Npos (XO (XI XH))) :: ((Npos (XI XH)) :: ((Npos (XI
    XH)) :: ((Npos (XO XH)) :: ((Npos (XI (XI XH))) :: ((Npos (XO (XI
    XH))) :: ((Npos (XO (XI XH))) :: ((Npos (XO (XO XH))) :: ((Npos (XO (XI
    XH))) :: ((Npos (XO (XO XH))) :: ((Npos (XO (XO XH))) :: ((Npos (XO
    XH)) :: ((Npos (XO (XI XH))) :: ((Npos (XO (XO XH))) :: ((Npos (XO (XO
    XH))) :: ((Npos (XI XH)) :: ((Npos (XO (XO XH))) :: ((Npos (XI
    XH)) :: ((Npos (XI XH)) :: ((Npos (XO XH)) :: ((Npos (XI (XI
    XH))) :: ((Npos (XO (XI XH))) :: ((Npos (XO (XI XH))) :: ((Npos (XI (XO
    XH))) :: ((Npos (XO (XI XH))) :: ((Npos (XI (XO XH))) :: ((Npos (XI (XO
    XH))) :: ((Npos (XO XH)) :: ((Npos (XO (XI XH))) :: ((Npos (XI (XO
    XH))) :: ((Npos (XI (XO XH))) :: ((Npos (XI XH)) :: ((Npos (XI (XO
    XH))) :: ((Npos (XI XH)) :: ((Npos (XI XH)) :: ((Npos (XO XH)) :: ((Npos
    (XO (XI XH))) :: ((Npos (XI (XO XH))) :: ((Npos (XI (XO XH))) :: ((Npos
    (XO (XO XH))) :: ((Npos (XI (XO XH))) :: ((Npos (XO (XO XH))) :: ((Npos
    (XO (XO XH))) :: ((Npos (XO XH)) :: ((Npos (XI (XO XH))) :: ((Npos (XO
    (XO XH))) :: ((Npos (XO (XO XH))) :: ((Npos (XI XH)) :: ((Npos (XO (XO
    XH))) :: ((Npos (XI XH)) :: ((Npos (XI XH)) :: ((Npos (XO XH)) :: ((Npos
    (XO (XO (XO XH)))) :: ((Npos (XO (XO (XO XH)))) :: ((Npos (XO (XO (XO
    XH)))) :: ((Npos (XO (XO (XO XH)))) :: ((Npos (XO (XO (XO
    XH)))) :: ((Npos (XO (XO (XO XH)))) :: ((Npos (XO (XO (XO
    XH)))) :: ((Npos (XO (XO (XO XH)))) :: ((Npos (XO (XO (XO
    XH)))) :: ((Npos (XO (XO (XO XH)))) :: ((Npos (XO (XO (XO
    XH)))) :: ((Npos (XO (XO (XO XH)))) :: ((Npos (XO (XO (XO
    XH)))) :: ((Npos (XO (XO (XO XH)))) :: ((Npos (XO (XO (XO
    XH)))) :: ((Npos (XI XH)) :: ((Npos (XO (XO (XO XH)))) :: ((Npos (XO (XO
    (XO XH)))) :: ((Npos (XO (XO (XO XH)))) :: ((Npos (XO (XO (XO
    XH)))) :: ((Npos (XO (XO (XO XH)))) :: ((Npos (XO (XO (XO
    XH)))) :: ((Npos (XO (XO (XO XH)))) :: ((Npos (XO (XO XH))) :: ((Npos (XO
    (XO (XO XH)))) :: ((Npos (XO (XO (XO XH)))) :: ((Npos (XO (XO (XO
    XH)))) :: ((Npos (XO (XO XH))) :: ((Npos (XO (XO (XO XH)))) :: ((Npos (XO
    (XO XH))) :: ((Npos (XO (XO XH))) :: ((Npos (XI XH)) :: ((Npos (XO (XO
    (XO XH)))) :: ((Npos (XO (XO (XO XH)))) :: ((Npos (XO (XO (XO
    XH)))) :: ((Npos (XO (XO (XO XH)))) :: ((Npos (XO (XO (XO
    XH)))) :: ((Npos (XO (XO (XO XH)))) :: ((Npos (XO (XO (XO
    XH)))) :: ((Npos (XI (XO XH))) :: ((Npos (XO (XO (XO XH)))) :: ((Npos (XO
    (XO (XO XH)))) :: ((Npos (XO (XO (XO XH)))) :: ((Npos (XI (XO
    XH))) :: ((Npos (XO (XO (XO XH)))) :: ((Npos (XI (XO XH))) :: ((Npos (XI
    (XO XH))) :: ((Npos (XI XH)) :: ((Npos (XO (XO (XO XH)))) :: ((Npos (XO
    (XO (XO XH)))) :: ((Npos (XO (XO (XO XH)))) :: ((Npos (XI (XO
    XH))) :: ((Npos (XO (XO (XO XH)))) :: ((Npos (XI (XO XH))) :: ((Npos (XI
    (XO XH))) :: ((Npos (XO (XO XH))) :: ((Npos (XO (XO (XO XH)))) :: ((Npos
    (XI (XO XH))) :: ((Npos (XI (XO XH))) :: ((Npos (XO (XO XH))) :: ((Npos
    (XI (XO XH))) :: ((Npos (XO (XO XH))) :: ((Npos (XO (XO XH))) :: ((Npos
    (XI XH)) :: ((Npos (XO (XO (XO XH)))) :: ((Npos (XO (XO (XO
    XH)))) :: ((Npos (XO (XO (XO XH)))) :: ((Npos (XO (XO (XO
    XH)))) :: ((Npos (XO (XO (XO XH)))) :: ((Npos (XO (XO (XO
    XH)))) :: ((Npos (XO (XO (XO XH)))) :: ((Npos (XO (XI XH))) :: ((Npos (XO
    (XO (XO XH)))) :: ((Npos (XO (XO (XO XH)))) :: ((Npos (XO (XO (XO
    XH)))) :: ((Npos (XO (XI XH))) :: ((Npos (XO (XO (XO XH)))) :: ((Npos (XO
    (XI XH))) :: ((Npos (XO (XI XH))) :: ((Npos (XI XH)) :: ((Npos (XO (XO
    (XO XH)))) :: ((Npos (XO (XO (XO XH)))) :: ((Npos (XO (XO (XO
    XH)))) :: ((Npos (XO (XI XH))) :: ((Npos (XO (XO (XO XH)))) :: ((Npos (XO
    (XI XH))) :: ((Npos (XO (XI XH))) :: ((Npos (XO (XO XH))) :: ((Npos (XO
    (XO (XO XH)))) :: ((Npos (XO (XI XH))) :: ((Npos (XO (XI XH))) :: ((Npos
    (XO (XO XH))) :: ((Npos (XO (XI XH))) :: ((Npos (XO (XO XH))) :: ((Npos
    (XO (XO XH))) :: ((Npos (XI XH)) :: ((Npos (XO (XO (XO XH)))) :: ((Npos
    (XO (XO (XO XH)))) :: ((Npos (XO (XO (XO XH)))) :: ((Npos (XO (XI
    XH))) :: ((Npos (XO (XO (XO XH)))) :: ((Npos (XO (XI XH))) :: ((Npos (XO
    (XI XH))) :: ((Npos (XI (XO XH))) :: ((Npos (XO (XO (XO XH)))) :: ((Npos
    (XO (XI XH))) :: ((Npos (XO (XI XH))) :: ((Npos (XI (XO XH))) :: ((Npos
    (XO (XI XH))) :: ((Npos (XI (XO XH))) :: ((Npos (XI (XO XH))) :: ((Npos
    (XI XH)) :: ((Npos (XO (XO (XO XH)))) :: ((Npos (XO (XI XH))) :: ((Npos
    (XO (XI XH))) :: ((Npos (XI (XO XH))) :: ((Npos (XO (XI XH))) :: ((Npos
    (XI (XO XH))) :: ((Npos (XI (XO XH))) :: ((Npos (XO (XO XH))) :: ((Npos
    (XO (XI XH))) :: ((Npos (XI (XO XH))) :: ((Npos (XI (XO XH))) :: ((Npos
    (XO (XO XH))) :: ((Npos (XI (XO XH))) :: ((Npos (XO (XO XH))) :: ((Npos
    (XO (XO XH))) :: ((Npos (XI XH)) :: ((Npos (XO (XO (XO XH)))) :: ((Npos
    (XO (XO (XO XH)))) :: ((Npos (XO (XO (XO XH)))) :: ((Npos (XO (XO (XO
    XH)))) :: ((Npos (XO (XO (XO XH)))) :: ((Npos (XO (XO (XO
    XH)))) :: ((Npos (XO (XO (XO XH)))) :: ((Npos (XI (XI XH))) :: ((Npos (XO
    (XO (XO XH)))) :: ((Npos (XO (XO (XO XH)))) :: ((Npos (XO (XO (XO
    XH)))) :: ((Npos (XI (XI XH))) :: ((Npos (XO (XO (XO XH)))) :: ((Npos (XI
    (XI XH))) :: ((Npos (XI (XI XH))) :: ((Npos (XI XH)) :: ((Npos (XO (XO
    (XO XH)))) :: ((Npos (XO (XO (XO XH)))) :: ((Npos (XO (XO (XO
    XH)))) :: ((Npos (XI (XI XH))) :: ((Npos (XO (XO (XO XH)))) :: ((Npos (XI
    (XI XH))) :: ((Npos (XI (XI XH))) :: ((Npos (XO (XO XH))) :: ((Npos (XO
    (XO (XO XH)))) :: ((Npos (XI (XI XH))) :: ((Npos (XI (XI XH))) :: ((Npos
    (XO (XO XH))) :: ((Npos (XI (XI XH))) :: ((Npos (XO (XO XH))) :: ((Npos
    (XO (XO XH))) :: ((Npos (XI XH)) :: ((Npos (XO (XO (XO XH)))) :: ((Npos
    (XO (XO (XO XH)))) :: ((Npos (XO (XO (XO XH)))) :: ((Npos (XI (XI
    XH))) :: ((Npos (XO (XO (XO XH)))) :: ((Npos (XI (XI XH))) :: ((Npos (XI
    (XI XH))) :: ((Npos (XI (XO XH))) :: ((Npos (XO (XO (XO XH)))) :: ((Npos
    (XI (XI XH))) :: ((Npos (XI (XI XH))) :: ((Npos (XI (XO XH))) :: ((Npos
    (XI (XI XH))) :: ((Npos (XI (XO XH))) :: ((Npos (XI (XO XH))) :: ((Npos
    (XI XH)) :: ((Npos (XO (XO (XO XH)))) :: ((Npos (XI (XI XH))) :: ((Npos
    (XI (XI XH))) :: ((Npos (XI (XO XH))) :: ((Npos (XI (XI XH))) :: ((Npos
    (XI (XO XH))) :: ((Npos (XI (XO XH))) :: ((Npos (XO (XO XH))) :: ((Npos
    (XI (XI XH))) :: ((Npos (XI (XO XH))) :: ((Npos (XI (XO XH))) :: ((Npos
    (XO (XO XH))) :: ((Npos (XI (XO XH))) :: ((Npos (XO (XO XH))) :: ((Npos
    (XO (XO XH))) :: ((Npos (XI XH)) :: ((Npos (XO (XO (XO XH)))) :: ((Npos
    (XO (XO (XO XH)))) :: ((Npos (XO (XO (XO XH)))) :: ((Npos (XI (XI
    XH))) :: ((Npos (XO (XO (XO XH)))) :: ((Npos (XI (XI XH))) :: ((Npos (XI
    (XI XH))) :: ((Npos (XO (XI XH))) :: ((Npos (XO (XO (XO XH)))) :: ((Npos
    (XI (XI XH))) :: ((Npos (XI (XI XH))) :: ((Npos (XO (XI XH))) :: ((Npos
    (XI (XI XH))) :: ((Npos (XO (XI XH))) :: ((Npos (XO (XI XH))) :: ((Npos
    (XI XH)) :: ((Npos (XO (XO (XO XH)))) :: ((Npos (XI (XI XH))) :: ((Npos
    (XI (XI XH))) :: ((Npos (XO (XI XH))) :: ((Npos (XI (XI XH))) :: ((Npos
    (XO (XI XH))) :: ((Npos (XO (XI XH))) :: ((Npos (XO (XO XH))) :: ((Npos
    (XI (XI XH))) :: ((Npos (XO (XI XH))) :: ((Npos (XO (XI XH))) :: ((Npos
    (XO (XO XH))) :: ((Npos (XO (XI XH))) :: ((Npos (XO (XO XH))) :: ((Npos
    (XO (XO XH))) :: ((Npos (XI XH)) :: ((Npos (XO (XO (XO XH)))) :: ((Npos
    (XI (XI XH))) :: ((Npos (XI (XI XH))) :: ((Npos (XO (XI XH))) :: ((Npos
    (XI (XI XH))) :: ((Npos (XO (XI XH))) :: ((Npos (XO (XI XH))) :: ((Npos
    (XI (XO XH))) :: ((Npos (XI (XI XH))) :: ((Npos (XO (XI XH))) :: ((Npos
    (XO (XI XH))) :: ((Npos (XI (XO XH))) :: ((Npos (XO (XI XH))) :: ((Npos
    (XI (XO XH))) :: ((Npos (XI (XO XH))) :: ((Npos (XI XH)) :: ((Npos (XI
    (XI XH))) :: ((Npos (XO (XI XH))) :: ((Npos (XO (XI XH))) :: ((Npos (XI
    (XO XH))) :: ((Npos (XO (XI XH))) :: ((Npos (XI (XO XH))) :: ((Npos (XI
    (XO XH))) :: ((Npos (XO (XO XH))) :: ((Npos (XO (XI XH))) :: ((Npos (XI
    (XO XH))) :: ((Npos (XI (XO XH))) :: ((Npos (XO (XO XH))) :: ((Npos (XI
    (XO XH))) :: ((Npos (XO (XO XH))) :: ((Npos (XO (XO XH))) :: ((Npos (XI
    XH)) :: ((Npos (XO (XO (XO XH)))) :: ((Npos (XO (XO (XO XH)))) :: ((Npos
    (XO (XO (XO XH)))) :: ((Npos (XO (XO (XO XH)))) :: ((Npos (XO (XO (XO
    XH)))) :: ((Npos (XO (XO (XO XH)))) :: ((Npos (XO (XO (XO
    XH)))) :: ((Npos (XO (XO (XO XH)))) :: ((Npos (XO (XO (XO
    XH)))) :: ((Npos (XO (XO (XO XH)))) :: ((Npos (XO (XO (XO
    XH)))) :: ((Npos (XO (XO (XO XH)))) :: ((Npos (XO (XO (XO
    XH)))) :: ((Npos (XO (XO (XO XH)))) :: ((Npos (XO (XO (XO
    XH)))) :: ((Npos (XO (XO (XO XH)))) :: ((Npos (XO (XO (XO
    XH)))) :: ((Npos (XO (XO (XO XH)))) :: ((Npos (XO (XO (XO
    XH)))) :: ((Npos (XO (XO (XO XH)))) :: ((Npos (XO (XO (XO
    XH)))) :: ((Npos (XO (XO (XO XH)))) :: ((Npos (XO (XO (XO
    XH)))) :: ((Npos (XO (XO (XO XH)))) :: ((Npos (XO (XO (XO
    XH)))) :: ((Npos (XO (XO (XO XH)))) :: ((Npos (XO (XO (XO
    XH)))) :: ((Npos (XO (XO (XO XH)))) :: ((Npos (XO (XO (XO
    XH)))) :: ((Npos (XO (XO (XO XH)))) :: ((Npos (XO (XO (XO
    XH)))) :: ((Npos (XO (XO XH))) :: ((Npos (XO (XO (XO XH)))) :: ((Npos (XO
    (XO (XO XH)))) :: ((Npos (XO (XO (XO XH)))) :: ((Npos (XO (XO (XO
    XH)))) :: ((Npos (XO (XO (XO XH)))) :: ((Npos (XO (XO (XO
    XH)))) :: ((Npos (XO (XO (XO XH)))) :: ((Npos (XO (XO (XO
    XH)))) :: ((Npos (XO (XO (XO XH)))) :: ((Npos (XO (XO (XO
    XH)))) :: ((Npos (XO (XO (XO XH)))) :: ((Npos (XO (XO (XO
    XH)))) :: ((Npos (XO (XO (XO XH)))) :: ((Npos (XO (XO (XO
    XH)))) :: ((Npos (XO (XO (XO XH)))) :: ((Npos (XI (XO XH))) :: ((Npos (XO
    (XO (XO XH)))) :: ((Npos (XO (XO (XO XH)))) :: ((Npos (XO (XO (XO
    XH)))) :: ((Npos (XO (XO (XO XH)))) :: ((Npos (XO (XO (XO
    XH)))) :: ((Npos (XO (XO (XO XH)))) :: ((Npos (XO (XO (XO
    XH)))) :: ((Npos (XI (XO XH))) :: ((Npos (XO (XO (XO XH)))) :: ((Npos (XO
    (XO (XO XH)))) :: ((Npos (XO (XO (XO XH)))) :: ((Npos (XI (XO
    XH))) :: ((Npos (XO (XO (XO XH)))) :: ((Npos (XI (XO XH))) :: ((Npos (XI
    (XO XH))) :: ((Npos (XO (XO XH))) :: ((Npos (XO (XO (XO XH)))) :: ((Npos
    (XO (XO (XO XH)))) :: ((Npos (XO (XO (XO XH)))) :: ((Npos (XO (XO (XO
    XH)))) :: ((Npos (XO (XO (XO XH)))) :: ((Npos (XO (XO (XO
    XH)))) :: ((Npos (XO (XO (XO XH)))) :: ((Npos (XO (XO (XO
    XH)))) :: ((Npos (XO (XO (XO XH)))) :: ((Npos (XO (XO (XO
    XH)))) :: ((Npos (XO (XO (XO XH)))) :: ((Npos (XO (XO (XO
    XH)))) :: ((Npos (XO (XO (XO XH)))) :: ((Npos (XO (XO (XO
    XH)))) :: ((Npos (XO (XO (XO XH)))) :: ((Npos (XO (XI XH))) :: ((Npos (XO
    (XO (XO XH)))) :: ((Npos (XO (XO (XO XH)))) :: ((Npos (XO (XO (XO
    XH)))) :: ((Npos (XO (XO (XO XH)))) :: ((Npos (XO (XO (XO
    XH)))) :: ((Npos (XO (XO (XO XH)))) :: ((Npos (XO (XO (XO
    XH)))) :: ((Npos (XO (XI XH))) :: ((Npos (XO (XO (XO XH)))) :: ((Npos (XO
    (XO (XO XH)))) :: ((Npos (XO (XO (XO XH)))) :: ((Npos (XO (XI
    XH))) :: ((Npos (XO (XO (XO XH)))) :: ((Npos (XO (XI XH))) :: ((Npos (XO
    (XI XH))) :: ((Npos (XO (XO XH))) :: ((Npos (XO (XO (XO XH)))) :: ((Npos
    (XO (XO (XO XH)))) :: ((Npos (XO (XO (XO XH)))) :: ((Npos (XO (XO (XO
    XH)))) :: ((Npos (XO (XO (XO XH)))) :: ((Npos (XO (XO (XO
    XH)))) :: ((Npos (XO (XO (XO XH)))) :: ((Npos (XO (XI XH))) :: ((Npos (XO
    (XO (XO XH)))) :: ((Npos (XO (XO (XO XH)))) :: ((Npos (XO (XO (XO
    XH)))) :: ((Npos (XO (XI XH))) :: ((Npos (XO (XO (XO XH)))) :: ((Npos (XO
    (XI XH))) :: ((Npos (XO (XI XH))) :: ((Npos (XI (XO XH))) :: ((Npos (XO
    (XO (XO XH)))) :: ((Npos (XO (XO (XO XH)))) :: ((Npos (XO (XO (XO
    XH)))) :: ((Npos (XO (XI XH))) :: ((Npos (XO (XO (XO XH)))) :: ((Npos (XO
    (XI XH))) :: ((Npos (XO (XI XH))) :: ((Npos (XI (XO XH))) :: ((Npos (XO
    (XO (XO XH)))) :: ((Npos (XO (XI XH))) :: ((Npos (XO (XI XH))) :: ((Npos
    (XI (XO XH))) :: ((Npos (XO (XI XH))) :: ((Npos (XI (XO XH))) :: ((Npos
    (XI (XO XH))) :: ((Npos (XO (XO XH))) :: ((Npos (XO (XO (XO
    XH)))) :: ((Npos (XO (XO (XO XH)))) :: ((Npos (XO (XO (XO
    XH)))) :: ((Npos (XO (XO (XO XH)))) :: ((Npos (XO (XO (XO
    XH)))) :: ((Npos (XO (XO (XO XH)))) :: ((Npos (XO (XO (XO
    XH)))) :: ((Npos (XO (XO (XO XH)))) :: ((Npos (XO (XO (XO
    XH)))) :: ((Npos (XO (XO (XO XH)))) :: ((Npos (XO (XO (XO
    XH)))) :: ((Npos (XO (XO (XO XH)))) :: ((Npos (XO (XO (XO
    XH)))) :: ((Npos (XO (XO (XO XH)))) :: ((Npos (XO (XO (XO
    XH)))) :: ((Npos (XI (XI XH))) :: ((Npos (XO (XO (XO XH)))) :: ((Npos (XO
    (XO (XO XH)))) :: ((Npos (XO (XO (XO XH)))) :: ((Npos (XO (XO (XO
    XH)))) :: ((Npos (XO (XO (XO XH)))) :: ((Npos (XO (XO (XO
    XH)))) :: ((Npos (XO (XO (XO XH)))) :: ((Npos (XI (XI XH))) :: ((Npos (XO
    (XO (XO XH)))) :: ((Npos (XO (XO (XO XH)))) :: ((Npos (XO (XO (XO
    XH)))) :: ((Npos (XI (XI XH))) :: ((Npos (XO (XO (XO XH)))) :: ((Npos (XI
    (XI XH))) :: ((Npos (XI (XI XH))) :: ((Npos (XO (XO XH))) :: ((Npos (XO
    (XO (XO XH)))) :: ((Npos (XO (XO (XO XH)))) :: ((Npos (XO (XO (XO
    XH)))) :: ((Npos (XO (XO (XO XH)))) :: ((Npos (XO (XO (XO
    XH)))) :: ((Npos (XO (XO (XO XH)))) :: ((Npos (XO (XO (XO
    XH)))) :: ((Npos (XI (XI XH))) :: ((Npos (XO (XO (XO XH)))) :: ((Npos (XO
    (XO (XO XH)))) :: ((Npos (XO (XO (XO XH)))) :: ((Npos (XI (XI
    XH))) :: ((Npos (XO (XO (XO XH)))) :: ((Npos (XI (XI XH))) :: ((Npos (XI
    (XI XH))) :: ((Npos (XI (XO XH))) :: ((Npos (XO (XO (XO XH)))) :: ((Npos
    (XO (XO (XO XH)))) :: ((Npos (XO (XO (XO XH)))) :: ((Npos (XI (XI
    XH))) :: ((Npos (XO (XO (XO XH)))) :: ((Npos (XI (XI XH))) :: ((Npos (XI
    (XI XH))) :: ((Npos (XI (XO XH))) :: ((Npos (XO (XO (XO XH)))) :: ((Npos
    (XI (XI XH))) :: ((Npos (XI (XI XH))) :: ((Npos (XI (XO XH))) :: ((Npos
    (XI (XI XH))) :: ((Npos (XI (XO XH))) :: ((Npos (XI (XO XH))) :: ((Npos
    (XO (XO XH))) :: ((Npos (XO (XO (XO XH)))) :: ((Npos (XO (XO (XO
    XH)))) :: ((Npos (XO (XO (XO XH)))) :: ((Npos (XO (XO (XO
    XH)))) :: ((Npos (XO (XO (XO XH)))) :: ((Npos (XO (XO (XO
    XH)))) :: ((Npos (XO (XO (XO XH)))) :: ((Npos (XI (XI XH))) :: ((Npos (XO
    (XO (XO XH)))) :: ((Npos (XO (XO (XO XH)))) :: ((Npos (XO (XO (XO
    XH)))) :: ((Npos (XI (XI XH))) :: ((Npos (XO (XO (XO XH)))) :: ((Npos (XI
    (XI XH))) :: ((Npos (XI (XI XH))) :: ((Npos (XO (XI XH))) :: ((Npos (XO
    (XO (XO XH)))) :: ((Npos (XO (XO (XO XH)))) :: ((Npos (XO (XO (XO
    XH)))) :: ((Npos (XI (XI XH))) :: ((Npos (XO (XO (XO XH)))) :: ((Npos (XI
    (XI XH))) :: ((Npos (XI (XI XH))) :: ((Npos (XO (XI XH))) :: ((Npos (XO
    (XO (XO XH)))) :: ((Npos (XI (XI XH))) :: ((Npos (XI (XI XH))) :: ((Npos
    (XO (XI XH))) :: ((Npos (XI (XI XH))) :: ((Npos (XO (XI XH))) :: ((Npos
    (XO (XI XH))) :: ((Npos (XO (XO XH))) :: ((Npos (XO (XO (XO
    XH)))) :: ((Npos (XO (XO (XO XH)))) :: ((Npos (XO (XO (XO
    XH)))) :: ((Npos (XI (XI XH))) :: ((Npos (XO (XO (XO XH)))) :: ((Npos (XI
    (XI XH))) :: ((Npos (XI (XI XH))) :: ((Npos (XO (XI XH))) :: ((Npos (XO
    (XO (XO XH)))) :: ((Npos (XI (XI XH))) :: ((Npos (XI (XI XH))) :: ((Npos
    (XO (XI XH))) :: ((Npos (XI (XI XH))) :: ((Npos (XO (XI XH))) :: ((Npos
    (XO (XI XH))) :: ((Npos (XI (XO XH))) :: ((Npos (XO (XO (XO
    XH)))) :: ((Npos (XI (XI XH))) :: ((Npos (XI (XI XH))) :: ((Npos (XO (XI
    XH))) :: ((Npos (XI (XI XH))) :: ((Npos (XO (XI XH))) :: ((Npos (XO (XI
    XH))) :: ((Npos (XI (XO XH))) :: ((Npos (XI (XI XH))) :: ((Npos (XO (XI
    XH))) :: ((Npos (XO (XI XH))) :: ((Npos (XI (XO XH))) :: ((Npos (XO (XI
    XH))) :: ((Npos (XI (XO XH))) :: ((Npos (XI (XO XH))) :: ((Npos (XO (XO
    XH))) :: ((Npos (XO (XO (XO XH)))) :: ((Npos (XO (XO (XO XH)))) :: ((Npos
    (XO (XO (XO XH)))) :: ((Npos (XO (XO (XO XH)))) :: ((Npos (XO (XO (XO
    XH)))) :: ((Npos (XO (XO (XO XH)))) :: ((Npos (XO (XO (XO
    XH)))) :: ((Npos (XO (XO (XO XH)))) :: ((Npos (XO (XO (XO
    XH)))) :: ((Npos (XO (XO (XO XH)))) :: ((Npos (XO (XO (XO
    XH)))) :: ((Npos (XO (XO (XO XH)))) :: ((Npos (XO (XO (XO
    XH)))) :: ((Npos (XO (XO (XO XH)))) :: ((Npos (XO (XO (XO
    XH)))) :: ((Npos (XO (XO (XO XH)))) :: ((Npos (XO (XO (XO
    XH)))) :: ((Npos (XO (XO (XO XH)))) :: ((Npos (XO (XO (XO
    XH)))) :: ((Npos (XO (XO (XO XH)))) :: ((Npos (XO (XO (XO
    XH)))) :: ((Npos (XO (XO (XO XH)))) :: ((Npos (XO (XO (XO
    XH)))) :: ((Npos (XO (XO (XO XH)))) :: ((Npos (XO (XO (XO
    XH)))) :: ((Npos (XO (XO (XO XH)))) :: ((Npos (XO (XO (XO
    XH)))) :: ((Npos (XO (XO (XO XH)))) :: ((Npos (XO (XO (XO
    XH)))) :: ((Npos (XO (XO (XO XH)))) :: ((Npos (XO (XO (XO
    XH)))) :: ((Npos (XO (XO (XO XH)))) :: ((Npos (XO (XO (XO
    XH)))) :: ((Npos (XO (XO (XO XH)))) :: ((Npos (XO (XO (XO
    XH)))) :: ((Npos (XO (XO (XO XH)))) :: ((Npos (XO (XO (XO
    XH)))) :: ((Npos (XO (XO (XO XH)))) :: ((Npos (XO (XO (XO
    XH)))) :: ((Npos (XO (XO (XO XH)))) :: ((Npos (XO (XO (XO
    XH)))) :: ((Npos (XO (XO (XO XH)))) :: ((Npos (XO (XO (XO
    XH)))) :: ((Npos (XO (XO (XO XH)))) :: ((Npos (XO (XO (XO
    XH)))) :: ((Npos (XO (XO (XO XH)))) :: ((Npos (XO (XO (XO
    XH)))) :: ((Npos (XO (XO (XO XH)))) :: ((Npos (XO (XO (XO
    XH)))) :: ((Npos (XO (XO (XO XH)))) :: ((Npos (XO (XO (XO
    XH)))) :: ((Npos (XO (XO (XO XH)))) :: ((Npos (XO (XO (XO
    XH)))) :: ((Npos (XO (XO (XO XH)))) :: ((Npos (XO (XO (XO
    XH)))) :: ((Npos (XO (XO (XO XH)))) :: ((Npos (XO (XO (XO
    XH)))) :: ((Npos (XO (XO (XO XH)))) :: ((Npos (XO (XO (XO
    XH)))) :: ((Npos (XO (XO (XO XH)))) :: ((Npos (XO (XO (XO
    XH)))) :: ((Npos (XO (XO (XO XH)))) :: ((Npos (XO (XO (XO
    XH)))) :: ((Npos (XI (XO XH))) :: ((Npos (XO (XO (XO XH)))) :: ((Npos (XO
    (XO (XO XH)))) :: ((Npos (XO (XO (XO XH)))) :: ((Npos (XO (XO (XO
    XH)))) :: ((Npos (XO (XO (XO XH)))) :: ((Npos (XO (XO (XO
    XH)))) :: ((Npos (XO (XO (XO XH)))) :: ((Npos (XO (XO (XO
    XH)))) :: ((Npos (XO (XO (XO XH)))) :: ((Npos (XO (XO (XO
    XH)))) :: ((Npos (XO (XO (XO XH)))) :: ((Npos (XO (XO (XO
    XH)))) :: ((Npos (XO (XO (XO XH)))) :: ((Npos (XO (XO (XO
    XH)))) :: ((Npos (XO (XO (XO XH)))) :: ((Npos (XO (XO (XO
    XH)))) :: ((Npos (XO (XO (XO XH)))) :: ((Npos (XO (XO (XO
    XH)))) :: ((Npos (XO (XO (XO XH)))) :: ((Npos (XO (XO (XO
    XH)))) :: ((Npos (XO (XO (XO XH)))) :: ((Npos (XO (XO (XO
    XH)))) :: ((Npos (XO (XO (XO XH)))) :: ((Npos (XO (XO (XO
    XH)))) :: ((Npos (XO (XO (XO XH)))) :: ((Npos (XO (XO (XO
    XH)))) :: ((Npos (XO (XO (XO XH)))) :: ((Npos (XO (XO (XO
    XH)))) :: ((Npos (XO (XO (XO XH)))) :: ((Npos (XO (XO (XO
    XH)))) :: ((Npos (XO (XO (XO XH)))) :: ((Npos (XO (XI XH))) :: ((Npos (XO
    (XO (XO XH)))) :: ((Npos (XO (XO (XO XH)))) :: ((Npos (XO (XO (XO
    XH)))) :: ((Npos (XO (XO (XO XH)))) :: ((Npos (XO (XO (XO
    XH)))) :: ((Npos (XO (XO (XO XH)))) :: ((Npos (XO (XO (XO
    XH)))) :: ((Npos (XO (XO (XO XH)))) :: ((Npos (XO (XO (XO
    XH)))) :: ((Npos (XO (XO (XO XH)))) :: ((Npos (XO (XO (XO
    XH)))) :: ((Npos (XO (XO (XO XH)))) :: ((Npos (XO (XO (XO
    XH)))) :: ((Npos (XO (XO (XO XH)))) :: ((Npos (XO (XO (XO
    XH)))) :: ((Npos (XO (XI XH))) :: ((Npos (XO (XO (XO XH)))) :: ((Npos (XO
    (XO (XO XH)))) :: ((Npos (XO (XO (XO XH)))) :: ((Npos (XO (XO (XO
    XH)))) :: ((Npos (XO (XO (XO XH)))) :: ((Npos (XO (XO (XO
    XH)))) :: ((Npos (XO (XO (XO XH)))) :: ((Npos (XO (XI XH))) :: ((Npos (XO
    (XO (XO XH)))) :: ((Npos (XO (XO (XO XH)))) :: ((Npos (XO (XO (XO
    XH)))) :: ((Npos (XO (XI XH))) :: ((Npos (XO (XO (XO XH)))) :: ((Npos (XO
    (XI XH))) :: ((Npos (XO (XI XH))) :: ((Npos (XI (XO XH))) :: ((Npos (XO
    (XO (XO XH)))) :: ((Npos (XO (XO (XO XH)))) :: ((Npos (XO (XO (XO
    XH)))) :: ((Npos (XO (XO (XO XH)))) :: ((Npos (XO (XO (XO
    XH)))) :: ((Npos (XO (XO (XO XH)))) :: ((Npos (XO (XO (XO
    XH)))) :: ((Npos (XO (XO (XO XH)))) :: ((Npos (XO (XO (XO
    XH)))) :: ((Npos (XO (XO (XO XH)))) :: ((Npos (XO (XO (XO
    XH)))) :: ((Npos (XO (XO (XO XH)))) :: ((Npos (XO (XO (XO
    XH)))) :: ((Npos (XO (XO (XO XH)))) :: ((Npos (XO (XO (XO
    XH)))) :: ((Npos (XO (XO (XO XH)))) :: ((Npos (XO (XO (XO
    XH)))) :: ((Npos (XO (XO (XO XH)))) :: ((Npos (XO (XO (XO
    XH)))) :: ((Npos (XO (XO (XO XH)))) :: ((Npos (XO (XO (XO
    XH)))) :: ((Npos (XO (XO (XO XH)))) :: ((Npos (XO (XO (XO
    XH)))) :: ((Npos (XO (XO (XO XH)))) :: ((Npos (XO (XO (XO
    XH)))) :: ((Npos (XO (XO (XO XH)))) :: ((Npos (XO (XO (XO
    XH)))) :: ((Npos (XO (XO (XO XH)))) :: ((Npos (XO (XO (XO
    XH)))) :: ((Npos (XO (XO (XO XH)))) :: ((Npos (XO (XO (XO
    XH)))) :: ((Npos (XI (XI XH))) :: ((Npos (XO (XO (XO XH)))) :: ((Npos (XO
    (XO (XO XH)))) :: ((Npos (XO (XO (XO XH)))) :: ((Npos (XO (XO (XO
    XH)))) :: ((Npos (XO (XO (XO XH)))) :: ((Npos (XO (XO (XO
    XH)))) :: ((Npos (XO (XO (XO XH)))) :: ((Npos (XO (XO (XO
    XH)))) :: ((Npos (XO (XO (XO XH)))) :: ((Npos (XO (XO (XO
    XH)))) :: ((Npos (XO (XO (XO XH)))) :: ((Npos (XO (XO (XO
    XH)))) :: ((Npos (XO (XO (XO XH)))) :: ((Npos (XO (XO (XO
    XH)))) :: ((Npos (XO (XO (XO XH)))) :: ((Npos (XI (XI XH))) :: ((Npos (XO
    (XO (XO XH)))) :: ((Npos (XO (XO (XO XH)))) :: ((Npos (XO (XO (XO
    XH)))) :: ((Npos (XO (XO (XO XH)))) :: ((Npos (XO (XO (XO
    XH)))) :: ((Npos (XO (XO (XO XH)))) :: ((Npos (XO (XO (XO
    XH)))) :: ((Npos (XI (XI XH))) :: ((Npos (XO (XO (XO XH)))) :: ((Npos (XO
    (XO (XO XH)))) :: ((Npos (XO (XO (XO XH)))) :: ((Npos (XI (XI
    XH))) :: ((Npos (XO (XO (XO XH)))) :: ((Npos (XI (XI XH))) :: ((Npos (XI
    (XI XH))) :: ((Npos (XI (XO XH))) :: ((Npos (XO (XO (XO XH)))) :: ((Npos
    (XO (XO (XO XH)))) :: ((Npos (XO (XO (XO XH)))) :: ((Npos (XO (XO (XO
    XH)))) :: ((Npos (XO (XO (XO XH)))) :: ((Npos (XO (XO (XO
    XH)))) :: ((Npos (XO (XO (XO XH)))) :: ((Npos (XO (XO (XO
    XH)))) :: ((Npos (XO (XO (XO XH)))) :: ((Npos (XO (XO (XO
    XH)))) :: ((Npos (XO (XO (XO XH)))) :: ((Npos (XO (XO (XO
    XH)))) :: ((Npos (XO (XO (XO XH)))) :: ((Npos (XO (XO (XO
    XH)))) :: ((Npos (XO (XO (XO XH)))) :: ((Npos (XI (XI XH))) :: ((Npos (XO
    (XO (XO XH)))) :: ((Npos (XO (XO (XO XH)))) :: ((Npos (XO (XO (XO
    XH)))) :: ((Npos (XO (XO (XO XH)))) :: ((Npos (XO (XO (XO
    XH)))) :: ((Npos (XO (XO (XO XH)))) :: ((Npos (XO (XO (XO
    XH)))) :: ((Npos (XI (XI XH))) :: ((Npos (XO (XO (XO XH)))) :: ((Npos (XO
    (XO (XO XH)))) :: ((Npos (XO (XO (XO XH)))) :: ((Npos (XI (XI
    XH))) :: ((Npos (XO (XO (XO XH)))) :: ((Npos (XI (XI XH))) :: ((Npos (XI
    (XI XH))) :: ((Npos (XO (XI XH))) :: ((Npos (XO (XO (XO XH)))) :: ((Npos
    (XO (XO (XO XH)))) :: ((Npos (XO (XO (XO XH)))) :: ((Npos (XO (XO (XO
    XH)))) :: ((Npos (XO (XO (XO XH)))) :: ((Npos (XO (XO (XO
    XH)))) :: ((Npos (XO (XO (XO XH)))) :: ((Npos (XI (XI XH))) :: ((Npos (XO
    (XO (XO XH)))) :: ((Npos (XO (XO (XO XH)))) :: ((Npos (XO (XO (XO
    XH)))) :: ((Npos (XI (XI XH))) :: ((Npos (XO (XO (XO XH)))) :: ((Npos (XI
    (XI XH))) :: ((Npos (XI (XI XH))) :: ((Npos (XO (XI XH))) :: ((Npos (XO
    (XO (XO XH)))) :: ((Npos (XO (XO (XO XH)))) :: ((Npos (XO (XO (XO
    XH)))) :: ((Npos (XI (XI XH))) :: ((Npos (XO (XO (XO XH)))) :: ((Npos (XI
    (XI XH))) :: ((Npos (XI (XI XH))) :: ((Npos (XO (XI XH))) :: ((Npos (XO
    (XO (XO XH)))) :: ((Npos (XI (XI XH))) :: ((Npos (XI (XI XH))) :: ((Npos
    (XO (XI XH))) :: ((Npos (XI (XI XH))) :: ((Npos (XO (XI XH))) :: ((Npos
    (XO (XI XH))) :: ((Npos (XI (XO XH))) :: ((Npos (XO (XO (XO
    XH)))) :: ((Npos (XO (XO (XO XH)))) :: ((Npos (XO (XO (XO
    XH)))) :: ((Npos (XO (XO (XO XH)))) :: ((Npos (XO (XO (XO
    XH)))) :: ((Npos (XO (XO (XO XH)))) :: ((Npos (XO (XO (XO
    XH)))) :: ((Npos (XO (XO (XO XH)))) :: ((Npos (XO (XO (XO
    XH)))) :: ((Npos (XO (XO (XO XH)))) :: ((Npos (XO (XO (XO
    XH)))) :: ((Npos (XO (XO (XO XH)))) :: ((Npos (XO (XO (XO
    XH)))) :: ((Npos (XO (XO (XO XH)))) :: ((Npos (XO (XO (XO
    XH)))) :: ((Npos (XO (XO (XO XH)))) :: ((Npos (XO (XO (XO
    XH)))) :: ((Npos (XO (XO (XO XH)))) :: ((Npos (XO (XO (XO
    XH)))) :: ((Npos (XO (XO (XO XH)))) :: ((Npos (XO (XO (XO
    XH)))) :: ((Npos (XO (XO (XO XH)))) :: ((Npos (XO (XO (XO
    XH)))) :: ((Npos (XO (XO (XO XH)))) :: ((Npos (XO (XO (XO
    XH)))) :: ((Npos (XO (XO (XO XH)))) :: ((Npos (XO (XO (XO
    XH)))) :: ((Npos (XO (XO (XO XH)))) :: ((Npos (XO (XO (XO
    XH)))) :: ((Npos (XO (XO (XO XH)))) :: ((Npos (XO (XO (XO
    XH)))) :: ((Npos (XO (XO (XO XH)))) :: ((Npos (XO (XO (XO
    XH)))) :: ((Npos (XO (XO (XO XH)))) :: ((Npos (XO (XO (XO
    XH)))) :: ((Npos (XO (XO (XO XH)))) :: ((Npos (XO (XO (XO
    XH)))) :: ((Npos (XO (XO (XO XH)))) :: ((Npos (XO (XO (XO
    XH)))) :: ((Npos (XO (XO (XO XH)))) :: ((Npos (XO (XO (XO
    XH)))) :: ((Npos (XO (XO (XO XH)))) :: ((Npos (XO (XO (XO
    XH)))) :: ((Npos (XO (XO (XO XH)))) :: ((Npos (XO (XO (XO
    XH)))) :: ((Npos (XO (XO (XO XH)))) :: ((Npos (XO (XO (XO
    XH)))) :: ((Npos (XO (XO (XO XH)))) :: ((Npos (XO (XO (XO
    XH)))) :: ((Npos (XO (XO (XO XH)))) :: ((Npos (XO (XO (XO
    XH)))) :: ((Npos (XO (XO (XO XH)))) :: ((Npos (XO (XO (XO
    XH)))) :: ((Npos (XO (XO (XO XH)))) :: ((Npos (XO (XO (XO
    XH)))) :: ((Npos (XO (XO (XO XH)))) :: ((Npos (XO (XO (XO
    XH)))) :: ((Npos (XO (XO (XO XH)))) :: ((Npos (XO (XO (XO
    XH)))) :: ((Npos (XO (XO (XO XH)))) :: ((Npos (XO (XO (XO
    XH)))) :: ((Npos (XO (XO (XO XH)))) :: ((Npos (XO (XO (XO
    XH)))) :: ((Npos (XO (XO (XO XH)))) :: ((Npos (XO (XO (XO
    XH)))) :: ((Npos (XO (XO (XO XH)))) :: ((Npos (XO (XO (XO
    XH)))) :: ((Npos (XO (XO (XO XH)))) :: ((Npos (XO (XO (XO
    XH)))) :: ((Npos (XO (XO (XO XH)))) :: ((Npos (XO (XO (XO
    XH)))) :: ((Npos (XO (XO (XO XH)))) :: ((Npos (XO (XO (XO
    XH)))) :: ((Npos (XO (XO (XO XH)))) :: ((Npos (XO (XO (XO
    XH)))) :: ((Npos (XO (XO (XO XH)))) :: ((Npos (XO (XO (XO
    XH)))) :: ((Npos (XO (XO (XO XH)))) :: ((Npos (XO (XO (XO
    XH)))) :: ((Npos (XO (XO (XO XH)))) :: ((Npos (XO (XO (XO
    XH)))) :: ((Npos (XO (XO (XO XH)))) :: ((Npos (XO (XO (XO
    XH)))) :: ((Npos (XO (XO (XO XH)))) :: ((Npos (XO (XO (XO
    XH)))) :: ((Npos (XO (XO (XO XH)))) :: ((Npos (XO (XO (XO
    XH)))) :: ((Npos (XO (XO (XO XH)))) :: ((Npos (XO (XO (XO
    XH)))) :: ((Npos (XO (XO (XO XH)))) :: ((Npos (XO (XO (XO
    XH)))) :: ((Npos (XO (XO (XO XH)))) :: ((Npos (XO (XO (XO
    XH)))) :: ((Npos (XO (XO (XO XH)))) :: ((Npos (XO (XO (XO
    XH)))) :: ((Npos (XO (XO (XO XH)))) :: ((Npos (XO (XO (XO
    XH)))) :: ((Npos (XO (XO (XO XH)))) :: ((Npos (XO (XO (XO
    XH)))) :: ((Npos (XO (XO (XO XH)))) :: ((Npos (XO (XO (XO
    XH)))) :: ((Npos (XO (XO (XO XH)))) :: ((Npos (XO (XO (XO
    XH)))) :: ((Npos (XO (XO (XO XH)))) :: ((Npos (XO (XO (XO
    XH)))) :: ((Npos (XO (XO (XO XH)))) :: ((Npos (XO (XO (XO
    XH)))) :: ((Npos (XO (XO (XO XH)))) :: ((Npos (XO (XO (XO
    XH)))) :: ((Npos (XO (XO (XO XH)))) :: ((Npos (XO (XO (XO
    XH)))) :: ((Npos (XO (XO (XO XH)))) :: ((Npos (XO (XO (XO
    XH)))) :: ((Npos (XO (XO (XO XH)))) :: ((Npos (XO (XO (XO
    XH)))) :: ((Npos (XO (XO (XO XH)))) :: ((Npos (XO (XO (XO
    XH)))) :: ((Npos (XO (XO (XO XH)))) :: ((Npos (XO (XO (XO
    XH)))) :: ((Npos (XO (XO (XO XH)))) :: ((Npos (XO (XO (XO
    XH)))) :: ((Npos (XO (XO (XO XH)))) :: ((Npos (XO (XO (XO
    XH)))) :: ((Npos (XO (XO (XO XH)))) :: ((Npos (XO (XO (XO
    XH)))) :: ((Npos (XO (XO (XO XH)))) :: ((Npos (XO (XO (XO
    XH)))) :: ((Npos (XO (XI XH))) :: ((Npos (XO (XO (XO XH)))) :: ((Npos (XO
    (XO (XO XH)))) :: ((Npos (XO (XO (XO XH)))) :: ((Npos (XO (XO (XO
    XH)))) :: ((Npos (XO (XO (XO XH)))) :: ((Npos (XO (XO (XO
    XH)))) :: ((Npos (XO (XO (XO XH)))) :: ((Npos (XO (XO (XO
    XH)))) :: ((Npos (XO (XO (XO XH)))) :: ((Npos (XO (XO (XO
    XH)))) :: ((Npos (XO (XO (XO XH)))) :: ((Npos (XO (XO (XO
    XH)))) :: ((Npos (XO (XO (XO XH)))) :: ((Npos (XO (XO (XO
    XH)))) :: ((Npos (XO (XO (XO XH)))) :: ((Npos (XO (XO (XO
    XH)))) :: ((Npos (XO (XO (XO XH)))) :: ((Npos (XO (XO (XO
    XH)))) :: ((Npos (XO (XO (XO XH)))) :: ((Npos (XO (XO (XO
    XH)))) :: ((Npos (XO (XO (XO XH)))) :: ((Npos (XO (XO (XO
    XH)))) :: ((Npos (XO (XO (XO XH)))) :: ((Npos (XO (XO (XO
    XH)))) :: ((Npos (XO (XO (XO XH)))) :: ((Npos (XO (XO (XO
    XH)))) :: ((Npos (XO (XO (XO XH)))) :: ((Npos (XO (XO (XO
    XH)))) :: ((Npos (XO (XO (XO XH)))) :: ((Npos (XO (XO (XO
    XH)))) :: ((Npos (XO (XO (XO XH)))) :: ((Npos (XO (XO (XO
    XH)))) :: ((Npos (XO (XO (XO XH)))) :: ((Npos (XO (XO (XO
    XH)))) :: ((Npos (XO (XO (XO XH)))) :: ((Npos (XO (XO (XO
    XH)))) :: ((Npos (XO (XO (XO XH)))) :: ((Npos (XO (XO (XO
    XH)))) :: ((Npos (XO (XO (XO XH)))) :: ((Npos (XO (XO (XO
    XH)))) :: ((Npos (XO (XO (XO XH)))) :: ((Npos (XO (XO (XO
    XH)))) :: ((Npos (XO (XO (XO XH)))) :: ((Npos (XO (XO (XO
    XH)))) :: ((Npos (XO (XO (XO XH)))) :: ((Npos (XO (XO (XO
    XH)))) :: ((Npos (XO (XO (XO XH)))) :: ((Npos (XO (XO (XO
    XH)))) :: ((Npos (XO (XO (XO XH)))) :: ((Npos (XO (XO (XO
    XH)))) :: ((Npos (XO (XO (XO XH)))) :: ((Npos (XO (XO (XO
    XH)))) :: ((Npos (XO (XO (XO XH)))) :: ((Npos (XO (XO (XO
    XH)))) :: ((Npos (XO (XO (XO XH)))) :: ((Npos (XO (XO (XO
    XH)))) :: ((Npos (XO (XO (XO XH)))) :: ((Npos (XO (XO (XO
    XH)))) :: ((Npos (XO (XO (XO XH)))) :: ((Npos (XO (XO (XO
    XH)))) :: ((Npos (XO (XO (XO XH)))) :: ((Npos (XO (XO (XO
    XH)))) :: ((Npos (XO (XO (XO XH)))) :: ((Npos (XI (XI XH))) :: ((Npos (XO
    (XO (XO XH)))) :: ((Npos (XO (XO (XO XH)))) :: ((Npos (XO (XO (XO
    XH)))) :: ((Npos (XO (XO (XO XH)))) :: ((Npos (XO (XO (XO
    XH)))) :: ((Npos (XO (XO (XO XH)))) :: ((Npos (XO (XO (XO
    XH)))) :: ((Npos (XO (XO (XO XH)))) :: ((Npos (XO (XO (XO
    XH)))) :: ((Npos (XO (XO (XO XH)))) :: ((Npos (XO (XO (XO
    XH)))) :: ((Npos (XO (XO (XO XH)))) :: ((Npos (XO (XO (XO
    XH)))) :: ((Npos (XO (XO (XO XH)))) :: ((Npos (XO (XO (XO
    XH)))) :: ((Npos (XO (XO (XO XH)))) :: ((Npos (XO (XO (XO
    XH)))) :: ((Npos (XO (XO (XO XH)))) :: ((Npos (XO (XO (XO
    XH)))) :: ((Npos (XO (XO (XO XH)))) :: ((Npos (XO (XO (XO
    XH)))) :: ((Npos (XO (XO (XO XH)))) :: ((Npos (XO (XO (XO
    XH)))) :: ((Npos (XO (XO (XO XH)))) :: ((Npos (XO (XO (XO
    XH)))) :: ((Npos (XO (XO (XO XH)))) :: ((Npos (XO (XO (XO
    XH)))) :: ((Npos (XO (XO (XO XH)))) :: ((Npos (XO (XO (XO
    XH)))) :: ((Npos (XO (XO (XO XH)))) :: ((Npos (XO (XO (XO
    XH)))) :: ((Npos (XI (XI XH))) :: ((Npos (XO (XO (XO XH)))) :: ((Npos (XO
    (XO (XO XH)))) :: ((Npos (XO (XO (XO XH)))) :: ((Npos (XO (XO (XO
    XH)))) :: ((Npos (XO (XO (XO XH)))) :: ((Npos (XO (XO (XO
    XH)))) :: ((Npos (XO (XO (XO XH)))) :: ((Npos (XO (XO (XO
    XH)))) :: ((Npos (XO (XO (XO XH)))) :: ((Npos (XO (XO (XO
    XH)))) :: ((Npos (XO (XO (XO XH)))) :: ((Npos (XO (XO (XO
    XH)))) :: ((Npos (XO (XO (XO XH)))) :: ((Npos (XO (XO (XO
    XH)))) :: ((Npos (XO (XO (XO XH)))) :: ((Npos (XI (XI XH))) :: ((Npos (XO
    (XO (XO XH)))) :: ((Npos (XO (XO (XO XH)))) :: ((Npos (XO (XO (XO
    XH)))) :: ((Npos (XO (XO (XO XH)))) :: ((Npos (XO (XO (XO
    XH)))) :: ((Npos (XO (XO (XO XH)))) :: ((Npos (XO (XO (XO
    XH)))) :: ((Npos (XI (XI XH))) :: ((Npos (XO (XO (XO XH)))) :: ((Npos (XO
    (XO (XO XH)))) :: ((Npos (XO (XO (XO XH)))) :: ((Npos (XI (XI
    XH))) :: ((Npos (XO (XO (XO XH)))) :: ((Npos (XI (XI XH))) :: ((Npos (XI
    (XI XH))) :: ((Npos (XO (XI XH))) :: ((Npos (XO (XO (XO XH)))) :: ((Npos
    (XO (XO (XO XH)))) :: ((Npos (XO (XO (XO XH)))) :: ((Npos (XO (XO (XO
    XH)))) :: ((Npos (XO (XO (XO XH)))) :: ((Npos (XO (XO (XO
    XH)))) :: ((Npos (XO (XO (XO XH)))) :: ((Npos (XO (XO (XO
    XH)))) :: ((Npos (XO (XO (XO XH)))) :: ((Npos (XO (XO (XO
    XH)))) :: ((Npos (XO (XO (XO XH)))) :: ((Npos (XO (XO (XO
    XH)))) :: ((Npos (XO (XO (XO XH)))) :: ((Npos (XO (XO (XO
    XH)))) :: ((Npos (XO (XO (XO XH)))) :: ((Npos (XO (XO (XO
    XH)))) :: ((Npos (XO (XO (XO XH)))) :: ((Npos (XO (XO (XO
    XH)))) :: ((Npos (XO (XO (XO XH)))) :: ((Npos (XO (XO (XO
    XH)))) :: ((Npos (XO (XO (XO XH)))) :: ((Npos (XO (XO (XO
    XH)))) :: ((Npos (XO (XO (XO XH)))) :: ((Npos (XO (XO (XO
    XH)))) :: ((Npos (XO (XO (XO XH)))) :: ((Npos (XO (XO (XO
    XH)))) :: ((Npos (XO (XO (XO XH)))) :: ((Npos (XO (XO (XO
    XH)))) :: ((Npos (XO (XO (XO XH)))) :: ((Npos (XO (XO (XO
    XH)))) :: ((Npos (XO (XO (XO XH)))) :: ((Npos (XO (XO (XO
    XH)))) :: ((Npos (XO (XO (XO XH)))) :: ((Npos (XO (XO (XO
    XH)))) :: ((Npos (XO (XO (XO XH)))) :: ((Npos (XO (XO (XO
    XH)))) :: ((Npos (XO (XO (XO XH)))) :: ((Npos (XO (XO (XO
    XH)))) :: ((Npos (XO (XO (XO XH)))) :: ((Npos (XO (XO (XO
    XH)))) :: ((Npos (XO (XO (XO XH)))) :: ((Npos (XO (XO (XO
    XH)))) :: ((Npos (XO (XO (XO XH)))) :: ((Npos (XO (XO (XO
    XH)))) :: ((Npos (XO (XO (XO XH)))) :: ((Npos (XO (XO (XO
    XH)))) :: ((Npos (XO (XO (XO XH)))) :: ((Npos (XO (XO (XO
    XH)))) :: ((Npos (XO (XO (XO XH)))) :: ((Npos (XO (XO (XO
    XH)))) :: ((Npos (XO (XO (XO XH)))) :: ((Npos (XO (XO (XO
    XH)))) :: ((Npos (XO (XO (XO XH)))) :: ((Npos (XO (XO (XO
    XH)))) :: ((Npos (XO (XO (XO XH)))) :: ((Npos (XO (XO (XO
    XH)))) :: ((Npos (XO (XO (XO XH)))) :: ((Npos (XO (XO (XO
    XH)))) :: ((Npos (XO (XO (XO XH)))) :: ((Npos (XO (XO (XO
    XH)))) :: ((Npos (XO (XO (XO XH)))) :: ((Npos (XO (XO (XO
    XH)))) :: ((Npos (XO (XO (XO XH)))) :: ((Npos (XO (XO (XO
    XH)))) :: ((Npos (XO (XO (XO XH)))) :: ((Npos (XO (XO (XO
    XH)))) :: ((Npos (XO (XO (XO XH)))) :: ((Npos (XO (XO (XO
    XH)))) :: ((Npos (XO (XO (XO XH)))) :: ((Npos (XO (XO (XO
    XH)))) :: ((Npos (XO (XO (XO XH)))) :: ((Npos (XO (XO (XO
    XH)))) :: ((Npos (XO (XO (XO XH)))) :: ((Npos (XO (XO (XO
    XH)))) :: ((Npos (XO (XO (XO XH)))) :: ((Npos (XO (XO (XO
    XH)))) :: ((Npos (XO (XO (XO XH)))) :: ((Npos (XO (XO (XO
    XH)))) :: ((Npos (XO (XO (XO XH)))) :: ((Npos (XO (XO (XO
    XH)))) :: ((Npos (XO (XO (XO XH)))) :: ((Npos (XO (XO (XO
    XH)))) :: ((Npos (XO (XO (XO XH)))) :: ((Npos (XO (XO (XO
    XH)))) :: ((Npos (XO (XO (XO XH)))) :: ((Npos (XO (XO (XO
    XH)))) :: ((Npos (XO (XO (XO XH)))) :: ((Npos (XO (XO (XO
    XH)))) :: ((Npos (XO (XO (XO XH)))) :: ((Npos (XO (XO (XO
    XH)))) :: ((Npos (XO (XO (XO XH)))) :: ((Npos (XO (XO (XO
    XH)))) :: ((Npos (XO (XO (XO XH)))) :: ((Npos (XO (XO (XO
    XH)))) :: ((Npos (XO (XO (XO XH)))) :: ((Npos (XO (XO (XO
    XH)))) :: ((Npos (XO (XO (XO XH)))) :: ((Npos (XO (XO (XO
    XH)))) :: ((Npos (XO (XO (XO XH)))) :: ((Npos (XO (XO (XO
    XH)))) :: ((Npos (XO (XO (XO XH)))) :: ((Npos (XO (XO (XO
    XH)))) :: ((Npos (XO (XO (XO XH)))) :: ((Npos (XO (XO (XO
    XH)))) :: ((Npos (XO (XO (XO XH)))) :: ((Npos (XO (XO (XO
    XH)))) :: ((Npos (XO (XO (XO XH)))) :: ((Npos (XO (XO (XO
    XH)))) :: ((Npos (XO (XO (XO XH)))) :: ((Npos (XO (XO (XO
    XH)))) :: ((Npos (XO (XO (XO XH)))) :: ((Npos (XO (XO (XO
    XH)))) :: ((Npos (XO (XO (XO XH)))) :: ((Npos (XO (XO (XO
    XH)))) :: ((Npos (XO (XO (XO XH)))) :: ((Npos (XO (XO (XO
    XH)))) :: ((Npos (XO (XO (XO XH)))) :: ((Npos (XO (XO (XO
    XH)))) :: ((Npos (XO (XO (XO XH)))) :: ((Npos (XO (XO (XO
    XH)))) :: ((Npos (XO (XO (XO XH)))) :: ((Npos (XO (XO (XO
    XH)))) :: ((Npos (XO (XO (XO XH)))) :: ((Npos (XO (XO (XO
    XH)))) :: ((Npos (XO (XO (XO XH)))) :: ((Npos (XO (XO (XO
    XH)))) :: ((Npos (XO (XO (XO XH)))) :: ((Npos (XO (XO (XO
    XH)))) :: ((Npos (XO (XO (XO XH)))) :: ((Npos (XO (XO (XO
    XH)))) :: ((Npos (XO (XO (XO XH)))) :: ((Npos (XO (XO (XO
    XH)))) :: ((Npos (XO (XO (XO XH)))) :: ((Npos (XO (XO (XO
    XH)))) :: ((Npos (XO (XO (XO XH)))) :: ((Npos (XO (XO (XO
    XH)))) :: ((Npos (XO (XO (XO XH)))) :: ((Npos (XO (XO (XO
    XH)))) :: ((Npos (XO (XO (XO XH)))) :: ((Npos (XO (XO (XO
    XH)))) :: ((Npos (XO (XO (XO XH)))) :: ((Npos (XO (XO (XO
    XH)))) :: ((Npos (XO (XO (XO XH)))) :: ((Npos (XO (XO (XO
    XH)))) :: ((Npos (XO (XO (XO XH)))) :: ((Npos (XO (XO (XO
    XH)))) :: ((Npos (XO (XO (XO XH)))) :: ((Npos (XO (XO (XO
    XH)))) :: ((Npos (XO (XO (XO XH)))) :: ((Npos (XO (XO (XO
    XH)))) :: ((Npos (XO (XO (XO XH)))) :: ((Npos (XO (XO (XO
    XH)))) :: ((Npos (XO (XO (XO XH)))) :: ((Npos (XO (XO (XO
    XH)))) :: ((Npos (XO (XO (XO XH)))) :: ((Npos (XO (XO (XO
    XH)))) :: ((Npos (XO (XO (XO XH)))) :: ((Npos (XO (XO (XO
    XH)))) :: ((Npos (XO (XO (XO XH)))) :: ((Npos (XO (XO (XO
    XH)))) :: ((Npos (XO (XO (XO XH)))) :: ((Npos (XO (XO (XO
    XH)))) :: ((Npos (XO (XO (XO XH)))) :: ((Npos (XO (XO (XO
    XH)))) :: ((Npos (XO (XO (XO XH)))) :: ((Npos (XO (XO (XO
    XH)))) :: ((Npos (XO (XO (XO XH)))) :: ((Npos (XO (XO (XO
    XH)))) :: ((Npos (XO (XO (XO XH)))) :: ((Npos (XO (XO (XO
    XH)))) :: ((Npos (XO (XO (XO XH)))) :: ((Npos (XO (XO (XO
    XH)))) :: ((Npos (XO (XO (XO XH)))) :: ((Npos (XO (XO (XO
    XH)))) :: ((Npos (XO (XO (XO XH)))) :: ((Npos (XO (XO (XO
    XH)))) :: ((Npos (XO (XO (XO XH)))) :: ((Npos (XO (XO (XO
    XH)))) :: ((Npos (XO (XO (XO XH)))) :: ((Npos (XO (XO (XO
    XH)))) :: ((Npos (XO (XO (XO XH)))) :: ((Npos (XO (XO (XO
    XH)))) :: ((Npos (XO (XO (XO XH)))) :: ((Npos (XO (XO (XO
    XH)))) :: ((Npos (XO (XO (XO XH)))) :: ((Npos (XO (XO (XO
    XH)))) :: ((Npos (XO (XO (XO XH)))) :: ((Npos (XO (XO (XO
    XH)))) :: ((Npos (XO (XO (XO XH)))) :: ((Npos (XO (XO (XO
    XH)))) :: ((Npos (XO (XO (XO XH)))) :: ((Npos (XO (XO (XO
    XH)))) :: ((Npos (XO (XO (XO XH)))) :: ((Npos (XO (XO (XO
    XH)))) :: ((Npos (XO (XO (XO XH)))) :: ((Npos (XO (XO (XO
    XH)))) :: ((Npos (XO (XO (XO XH)))) :: ((Npos (XO (XO (XO
    XH)))) :: ((Npos (XO (XO (XO XH)))) :: ((Npos (XO (XO (XO
    XH)))) :: ((Npos (XO (XO (XO XH)))) :: ((Npos (XO (XO (XO
    XH)))) :: ((Npos (XO (XO (XO XH)))) :: ((Npos (XO (XO (XO
    XH)))) :: ((Npos (XO (XO (XO XH)))) :: ((Npos (XO (XO (XO
    XH)))) :: ((Npos (XO (XO (XO XH)))) :: ((Npos (XO (XO (XO
    XH)))) :: ((Npos (XO (XO (XO XH)))) :: ((Npos (XO (XO (XO
    XH)))) :: ((Npos (XO (XO (XO XH)))) :: ((Npos (XO (XO (XO
    XH)))) :: ((Npos (XO (XO (XO XH)))) :: ((Npos (XO (XO (XO
    XH)))) :: ((Npos (XO (XO (XO XH)))) :: ((Npos (XO (XO (XO
    XH)))) :: ((Npos (XO (XO (XO XH)))) :: ((Npos (XO (XO (XO
    XH)))) :: ((Npos (XO (XO (XO XH)))) :: ((Npos (XO (XO (XO
    XH)))) :: ((Npos (XO (XO (XO XH)))) :: ((Npos (XO (XO (XO
    XH)))) :: ((Npos (XO (XO (XO XH)))) :: ((Npos (XO (XO (XO
    XH)))) :: ((Npos (XO (XO (XO XH)))) :: ((Npos (XO (XO (XO
    XH)))) :: ((Npos (XO (XO (XO XH)))) :: ((Npos (XO (XO (XO
    XH)))) :: ((Npos (XO (XO (XO XH)))) :: ((Npos (XO (XO (XO
    XH)))) :: ((Npos (XO (XO (XO XH)))) :: ((Npos (XO (XO (XO
    XH)))) :: ((Npos (XO (XO (XO XH)))) :: ((Npos (XO (XO (XO
    XH)))) :: ((Npos (XO (XO (XO XH)))) :: ((Npos (XO (XO (XO
    XH)))) :: ((Npos (XO (XO (XO XH)))) :: ((Npos (XO (XO (XO
    XH)))) :: ((Npos (XO (XO (XO XH)))) :: ((Npos (XO (XO (XO
    XH)))) :: ((Npos (XO (XO (XO XH)))) :: ((Npos (XO (XO (XO
    XH)))) :: ((Npos (XO (XO (XO XH)))) :: ((Npos (XO (XO (XO
    XH)))) :: ((Npos (XO (XO (XO XH)))) :: ((Npos (XO (XO (XO
    XH)))) :: ((Npos (XO (XO (XO XH)))) :: ((Npos (XO (XO (XO
    XH)))) :: ((Npos (XO (XO (XO XH)))) :: ((Npos (XO (XO (XO
    XH)))) :: ((Npos (XO (XO (XO XH)))) :: ((Npos (XO (XO (XO
    XH)))) :: ((Npos (XO (XO (XO XH)))) :: ((Npos (XO (XO (XO
    XH)))) :: ((Npos (XO (XO (XO XH)))) :: ((Npos (XI (XI
    XH))) :: [])))))))))))))))))))))))))))))))))))))))))))))))))))))))))))))))))))))))))))))))))))))))))))))))))))))))))))))))))))))))))))))))))))))))))))))))))))))))))))))))))))))))))))))))))))))))))))))))))))))))))))))))))))))))))))))))))))))))))))))))))))))))))))))))))))))))))))))))))))))))))))))))))))))))))))))))))))))))))))))))))))))))))))))))))))))))))))))))))))))))))))))))))))))))))))))))))))))))))))))))))))))))))))))))))))))))))))))))))))))))))))))))))))))))))))))))))))))))))))))))))))))))))))))))))))))))))))))))))))))))))))))))))))))))))))))))))))))))))))))))))))))))))))))))))))))))))))))))))))))))))))))))))))))))))))))))))))))))))))))))))))))))))))))))))))))))))))))))))))))))))))))))))))))))))))))))))))))))))))))))))))))))))))))))))))))))))))))))))))))))))))))))))))))))))))))))))))))))))))))))))))))))))))))))))))))))))))))))))))))))))))))))))))))))))))))))))))))))))))))))))))))))))))))))))))))))))))))))))))))))))))))))))))))))))))))))))))))))))))))))))))))))))))))))))))))))))))))))))))))))))))))))))))))))))))))))))))))))))))))))))))))))))))))))))))))))))))))))))))))))))))))))))))))))))))))))))))))))))))))))))))))))))))))))))))))))))))))))))))))))))))))))))))))))))))))))))))))))))))))))))))))))))))))))))))))))))))))))))))))))))))))))))))))))))))))))))))))))))))))))))))))))))))))))))))))))))))))))))))))))))))))))))))))))))))))))))))))))))))))))))))))))))))))))))))))))))))))))))))))))))))))))))))))))))))))))))))))))))))))))))))))))))))))))))))))))))))))))))))))))))))))))))))))))))))))))))))))))))))))))))))))))))))))))))))))))))))))))))))))))))))))))))))))))))))))))))))))))))))))))))))))))))))))))))))))))))))))))))))))))))))))))))))))))))))))))))))))))))))))))))))))))))))))))))))))))))))))))))))))))))))))))))))))))))))))))))))))))))))))))))))))))))))))))))))))))))))))))))))))))))))))))))))))))))))))))))))))))))))))))))))))))))))))))))))))))))))))))))))))))))))))))))))))))))))))))))))))))))))))))))))))))))))))))))))))))))))))))))))))))))))))))))))))))))))))))))))))))))))))))))))))))))))))))))))))))))))))))))))))))))))))))

(** val popcount_pos : positive -> n **)

let rec popcount_pos = function
| XI q -> N.add (Npos XH) (popcount_pos q)
| XO q -> popcount_pos q
| XH -> Npos XH

(** val popcount : n -> n **)

let popcount = function
| N0 -> N0
| Npos p -> popcount_pos p

(** val m64 : n **)

let m64 =
  N.pow (Npos (XO XH)) (Npos (XO (XO (XO (XO (XO (XO XH)))))))

(** val select_in_word : n -> n -> n outcome **)

let select_in_word word k =
  bind
    (osub word
      (N.shiftr (N.coq_land word (N.mul sIW_M1 k_ONES_STEP4)) (Npos XH)))
    (fun s ->
    bind
      (oadd (Npos (XO (XO (XO (XO (XO (XO XH)))))))
        (N.coq_land s (N.mul sIW_M2 k_ONES_STEP4))
        (N.coq_land (N.shiftr s (Npos (XO XH)))
          (N.mul (Npos (XI XH)) k_ONES_STEP4))) (fun s0 ->
      bind
        (oadd (Npos (XO (XO (XO (XO (XO (XO XH))))))) s0
          (N.shiftr s0 (Npos (XO (XO XH))))) (fun t ->
        let s1 = N.coq_land t (N.mul sIW_M3 k_ONES_STEP8) in
        let byte_sums = N.modulo (N.mul s1 k_ONES_STEP8) m64 in
        bind (omul (Npos (XO (XO (XO (XO (XO (XO XH))))))) k k_ONES_STEP8)
          (fun k_step8 ->
          bind (osub (N.coq_lor k_step8 k_LAMBDAS_STEP8) byte_sums) (fun d ->
            let geq_k_step8 = N.coq_land d k_LAMBDAS_STEP8 in
            bind
              (omul (Npos (XO (XO (XO (XO (XO XH)))))) (popcount geq_k_step8)
                sIW_PLACE_MUL) (fun place ->
              if N.eqb place sIW_NOTFOUND
              then Val (Npos (XO (XO (XO (XO (XO (XO XH)))))))
              else bind
                     (oshl (Npos (XO (XO (XO (XO (XO (XO XH))))))) byte_sums
                       (Npos (XO (XO (XO XH))))) (fun sh ->
                     bind
                       (oshr (Npos (XO (XO (XO (XO (XO (XO XH))))))) sh place)
                       (fun sr ->
                       bind (osub k (N.coq_land sr sIW_BYTE_MASK))
                         (fun byte_rank ->
                         bind
                           (oshr (Npos (XO (XO (XO (XO (XO (XO XH))))))) word
                             place) (fun wsh ->
                           bind
                             (oshl (Npos (XO (XO (XO (XO (XO (XO XH)))))))
                               byte_rank (Npos (XO (XO (XO XH)))))
                             (fun br8 ->
                             bind
                               (idx sel_table
                                 (N.coq_lor
                                   (N.coq_land wsh (Npos (XI (XI (XI (XI (XI
                                     (XI (XI XH))))))))) br8)) (fun tv ->
                               oadd (Npos (XO (XO (XO (XO (XO XH)))))) place
                                 tv))))))))))))

(** val select_in_word_u128 : n -> n -> n outcome **)

let select_in_word_u128 word k =
  let first = N.modulo word m64 in
  let kp = popcount first in
  if N.ltb k kp
  then select_in_word first k
  else bind (osub k kp) (fun k' ->
         bind
           (select_in_word
             (N.modulo
               (N.shiftr word (Npos (XO (XO (XO (XO (XO (XO XH)))))))) m64)
             k') (fun r ->
           oadd (Npos (XO (XO (XO (XO (XO XH)))))) (Npos (XO (XO (XO (XO (XO
             (XO XH))))))) r))

(** val popcnt_wide : nat -> n list -> n **)

let popcnt_wide n0 data =
  sumN (map popcount (firstn n0 data))

(** val msb_w : n -> n -> n outcome **)

let msb_w w v =
  if N.eqb v N0
  then Val N0
  else osub (N.sub w (Npos XH)) (N.sub (N.sub w (Npos XH)) (N.log2 v))

(** val m128 : n **)

let m128 =
  N.pow (Npos (XO XH)) (Npos (XO (XO (XO (XO (XO (XO (XO XH))))))))

(** val qline_set_symbol : n list -> n -> n -> n list outcome **)

let qline_set_symbol ws symbol i =
  let word_id_high = N.shiftr i qV_WORD_SHIFT in
  let word_id_low = N.add word_id_high qV_LOW_PLANE in
  let cur_shift = N.coq_land i qV_WORD_MASK in
  let symbol0 = N.coq_land symbol qV_SYM_MASK in
  bind (idx ws word_id_high) (fun wh ->
    bind
      (oshl (Npos (XO (XO (XO (XO (XO (XO (XO XH))))))))
        (N.shiftr symbol0 (Npos XH)) cur_shift) (fun hi ->
      let ws1 = setN ws word_id_high (N.coq_lor wh hi) in
      bind (idx ws1 word_id_low) (fun wl ->
        bind
          (oshl (Npos (XO (XO (XO (XO (XO (XO (XO XH))))))))
            (N.coq_land symbol0 (Npos XH)) cur_shift) (fun lo -> Val
          (setN ws1 word_id_low (N.coq_lor wl lo))))))

(** val qline_get_unchecked : n list -> n -> n outcome **)

let qline_get_unchecked ws i =
  let word_id_high = N.shiftr i qVG_WORD_SHIFT in
  let word_id_low = N.add word_id_high qVG_LOW_PLANE in
  let cur_shift = N.coq_land i qVG_WORD_MASK in
  bind (uidx ws word_id_high) (fun word_high ->
    bind (uidx ws word_id_low) (fun word_low ->
      bind
        (oshr (Npos (XO (XO (XO (XO (XO (XO (XO XH)))))))) word_high
          cur_shift) (fun h ->
        bind
          (oshr (Npos (XO (XO (XO (XO (XO (XO (XO XH)))))))) word_low
            cur_shift) (fun l -> Val
          (N.modulo
            (N.coq_lor (N.shiftl (N.coq_land h (Npos XH)) (Npos XH))
              (N.coq_land l (Npos XH))) (Npos (XO (XO (XO (XO (XO (XO (XO (XO
            XH))))))))))))))

(** val qline_normalize : n list -> n -> (n * n) outcome **)

let qline_normalize ws symbol =
  let rep = fun b -> if N.eqb b N0 then N.sub m128 (Npos XH) else N0 in
  let mask_high = rep (N.shiftr symbol (Npos XH)) in
  let mask_low = rep (N.coq_land symbol (Npos XH)) in
  bind
    (if N.ltb (Npos XH) (N.shiftr symbol (Npos XH))
     then Fault Panic
     else Val ()) (fun _ ->
    bind (idx ws N0) (fun w0 ->
      bind (idx ws (Npos XH)) (fun w1 ->
        bind (idx ws (Npos (XO XH))) (fun w2 ->
          bind (idx ws (Npos (XI XH))) (fun w3 -> Val
            ((N.coq_land (N.coq_lxor w0 mask_high) (N.coq_lxor w2 mask_low)),
            (N.coq_land (N.coq_lxor w1 mask_high) (N.coq_lxor w3 mask_low))))))))

(** val qline_rank_unchecked : n list -> n -> n -> n outcome **)

let qline_rank_unchecked ws symbol i =
  bind (odebug_assert (N.leb symbol (Npos (XI XH)))) (fun _ ->
    bind
      (odebug_assert
        (N.leb i (Npos (XO (XO (XO (XO (XO (XO (XO (XO XH)))))))))))
      (fun _ ->
      bind (qline_normalize ws symbol) (fun pat ->
        let (word_0, word_1) = pat in
        let last_word = N.shiftr i qVR_WORD_SHIFT in
        let offset = N.coq_land i qVR_WORD_MASK in
        let mask_full = N.sub m128 (Npos XH) in
        bind
          (oshl (Npos (XO (XO (XO (XO (XO (XO (XO XH)))))))) (Npos XH) offset)
          (fun one_sh ->
          bind (osub one_sh (Npos XH)) (fun mask_offset ->
            let mask0 = if N.eqb last_word N0 then mask_offset else mask_full
            in
            let rank = popcount (N.coq_land word_0 mask0) in
            let mask1 =
              if N.eqb last_word (Npos XH)
              then mask_offset
              else N.mul mask_full
                     (if N.eqb last_word (Npos (XO XH)) then Npos XH else N0)
            in
            Val (N.add rank (popcount (N.coq_land word_1 mask1))))))))

(** val plane_bits : (n -> n) -> n list -> n **)

let rec plane_bits bit = function
| [] -> N0
| s :: r -> N.add (bit s) (N.mul (Npos (XO XH)) (plane_bits bit r))

(** val pack_qline : n list -> n list **)

let pack_qline syms =
  let hi = fun s -> N.modulo (N.shiftr s (Npos XH)) (Npos (XO XH)) in
  let lo = fun s -> N.modulo s (Npos (XO XH)) in
  (plane_bits hi
    (firstn (S (S (S (S (S (S (S (S (S (S (S (S (S (S (S (S (S (S (S (S (S (S
      (S (S (S (S (S (S (S (S (S (S (S (S (S (S (S (S (S (S (S (S (S (S (S (S
      (S (S (S (S (S (S (S (S (S (S (S (S (S (S (S (S (S (S (S (S (S (S (S (S
      (S (S (S (S (S (S (S (S (S (S (S (S (S (S (S (S (S (S (S (S (S (S (S (S
      (S (S (S (S (S (S (S (S (S (S (S (S (S (S (S (S (S (S (S (S (S (S (S (S
      (S (S (S (S (S (S (S (S (S (S
      O))))))))))))))))))))))))))))))))))))))))))))))))))))))))))))))))))))))))))))))))))))))))))))))))))))))))))))))))))))))))))))))))
      syms)) :: ((plane_bits hi
                   (skipn (S (S (S (S (S (S (S (S (S (S (S (S (S (S (S (S (S
                     (S (S (S (S (S (S (S (S (S (S (S (S (S (S (S (S (S (S (S
                     (S (S (S (S (S (S (S (S (S (S (S (S (S (S (S (S (S (S (S
                     (S (S (S (S (S (S (S (S (S (S (S (S (S (S (S (S (S (S (S
                     (S (S (S (S (S (S (S (S (S (S (S (S (S (S (S (S (S (S (S
                     (S (S (S (S (S (S (S (S (S (S (S (S (S (S (S (S (S (S (S
                     (S (S (S (S (S (S (S (S (S (S (S (S (S (S (S (S
                     O))))))))))))))))))))))))))))))))))))))))))))))))))))))))))))))))))))))))))))))))))))))))))))))))))))))))))))))))))))))))))))))))
                     syms)) :: ((plane_bits lo
                                  (firstn (S (S (S (S (S (S (S (S (S (S (S (S
                                    (S (S (S (S (S (S (S (S (S (S (S (S (S (S
                                    (S (S (S (S (S (S (S (S (S (S (S (S (S (S
                                    (S (S (S (S (S (S (S (S (S (S (S (S (S (S
                                    (S (S (S (S (S (S (S (S (S (S (S (S (S (S
                                    (S (S (S (S (S (S (S (S (S (S (S (S (S (S
                                    (S (S (S (S (S (S (S (S (S (S (S (S (S (S
                                    (S (S (S (S (S (S (S (S (S (S (S (S (S (S
                                    (S (S (S (S (S (S (S (S (S (S (S (S (S (S
                                    (S (S (S (S
                                    O))))))))))))))))))))))))))))))))))))))))))))))))))))))))))))))))))))))))))))))))))))))))))))))))))))))))))))))))))))))))))))))))
                                    syms)) :: ((plane_bits lo
                                                 (skipn (S (S (S (S (S (S (S
                                                   (S (S (S (S (S (S (S (S (S
                                                   (S (S (S (S (S (S (S (S (S
                                                   (S (S (S (S (S (S (S (S (S
                                                   (S (S (S (S (S (S (S (S (S
                                                   (S (S (S (S (S (S (S (S (S
                                                   (S (S (S (S (S (S (S (S (S
                                                   (S (S (S (S (S (S (S (S (S
                                                   (S (S (S (S (S (S (S (S (S
                                                   (S (S (S (S (S (S (S (S (S
                                                   (S (S (S (S (S (S (S (S (S
                                                   (S (S (S (S (S (S (S (S (S
                                                   (S (S (S (S (S (S (S (S (S
                                                   (S (S (S (S (S (S (S (S (S
                                                   (S (S (S (S
                                                   O))))))))))))))))))))))))))))))))))))))))))))))))))))))))))))))))))))))))))))))))))))))))))))))))))))))))))))))))))))))))))))))))
                                                   syms)) :: [])))
