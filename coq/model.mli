
val negb : bool -> bool

type nat =
| O
| S of nat

val option_map : ('a1 -> 'a2) -> 'a1 option -> 'a2 option

val fst : ('a1 * 'a2) -> 'a1

val snd : ('a1 * 'a2) -> 'a2

val length : 'a1 list -> nat

val app : 'a1 list -> 'a1 list -> 'a1 list

type comparison =
| Eq
| Lt
| Gt

val compOpp : comparison -> comparison

val add : nat -> nat -> nat

val mul : nat -> nat -> nat

val eqb : nat -> nat -> bool

type positive =
| XI of positive
| XO of positive
| XH

type n =
| N0
| Npos of positive

type z =
| Z0
| Zpos of positive
| Zneg of positive

module Pos :
 sig
  type mask =
  | IsNul
  | IsPos of positive
  | IsNeg
 end

module Coq_Pos :
 sig
  val succ : positive -> positive

  val add : positive -> positive -> positive

  val add_carry : positive -> positive -> positive

  val pred_double : positive -> positive

  val pred_N : positive -> n

  type mask = Pos.mask =
  | IsNul
  | IsPos of positive
  | IsNeg

  val succ_double_mask : mask -> mask

  val double_mask : mask -> mask

  val double_pred_mask : positive -> mask

  val sub_mask : positive -> positive -> mask

  val sub_mask_carry : positive -> positive -> mask

  val mul : positive -> positive -> positive

  val iter : ('a1 -> 'a1) -> 'a1 -> positive -> 'a1

  val pow : positive -> positive -> positive

  val size : positive -> positive

  val compare_cont : comparison -> positive -> positive -> comparison

  val compare : positive -> positive -> comparison

  val eqb : positive -> positive -> bool

  val leb : positive -> positive -> bool

  val sqrtrem_step :
    (positive -> positive) -> (positive -> positive) -> (positive * mask) ->
    positive * mask

  val sqrtrem : positive -> positive * mask

  val sqrt : positive -> positive

  val coq_Nsucc_double : n -> n

  val coq_Ndouble : n -> n

  val coq_lor : positive -> positive -> positive

  val coq_land : positive -> positive -> n

  val coq_lxor : positive -> positive -> n

  val shiftl : positive -> n -> positive

  val testbit : positive -> n -> bool

  val iter_op : ('a1 -> 'a1 -> 'a1) -> positive -> 'a1 -> 'a1

  val to_nat : positive -> nat

  val of_succ_nat : nat -> positive
 end

module N :
 sig
  val succ_double : n -> n

  val double : n -> n

  val pred : n -> n

  val add : n -> n -> n

  val sub : n -> n -> n

  val mul : n -> n -> n

  val compare : n -> n -> comparison

  val eqb : n -> n -> bool

  val leb : n -> n -> bool

  val ltb : n -> n -> bool

  val max : n -> n -> n

  val div2 : n -> n

  val pow : n -> n -> n

  val log2 : n -> n

  val pos_div_eucl : positive -> n -> n * n

  val div_eucl : n -> n -> n * n

  val div : n -> n -> n

  val modulo : n -> n -> n

  val sqrt : n -> n

  val coq_lor : n -> n -> n

  val coq_land : n -> n -> n

  val coq_lxor : n -> n -> n

  val shiftl : n -> n -> n

  val shiftr : n -> n -> n

  val testbit : n -> n -> bool

  val to_nat : n -> nat

  val of_nat : nat -> n

  val b2n : bool -> n
 end

module Z :
 sig
  val double : z -> z

  val succ_double : z -> z

  val pred_double : z -> z

  val pos_sub : positive -> positive -> z

  val add : z -> z -> z

  val opp : z -> z

  val sub : z -> z -> z

  val mul : z -> z -> z

  val pow_pos : z -> positive -> z

  val pow : z -> z -> z

  val compare : z -> z -> comparison

  val leb : z -> z -> bool

  val ltb : z -> z -> bool

  val to_N : z -> n

  val of_N : n -> z

  val pos_div_eucl : positive -> z -> z * z

  val div_eucl : z -> z -> z * z

  val modulo : z -> z -> z
 end

val last : 'a1 list -> 'a1 -> 'a1

val rev : 'a1 list -> 'a1 list

val concat : 'a1 list list -> 'a1 list

val map : ('a1 -> 'a2) -> 'a1 list -> 'a2 list

val flat_map : ('a1 -> 'a2 list) -> 'a1 list -> 'a2 list

val fold_left : ('a1 -> 'a2 -> 'a1) -> 'a2 list -> 'a1 -> 'a1

val forallb : ('a1 -> bool) -> 'a1 list -> bool

val filter : ('a1 -> bool) -> 'a1 list -> 'a1 list

val find : ('a1 -> bool) -> 'a1 list -> 'a1 option

val combine : 'a1 list -> 'a2 list -> ('a1 * 'a2) list

val firstn : nat -> 'a1 list -> 'a1 list

val skipn : nat -> 'a1 list -> 'a1 list

val repeat : 'a1 -> nat -> 'a1 list

type fault =
| Panic
| Overflow
| UB
| DebugAssert
| OutOfFuel

type 'a outcome =
| Val of 'a
| Fault of fault

val bind : 'a1 outcome -> ('a1 -> 'a2 outcome) -> 'a2 outcome

val osub : n -> n -> n outcome

val oadd : n -> n -> n -> n outcome

val omul : n -> n -> n -> n outcome

val oshr : n -> n -> n -> n outcome

val oshl : n -> n -> n -> n outcome

val oassert : bool -> unit outcome

val odebug_assert : bool -> unit outcome

val ounwrap : 'a1 option -> 'a1 outcome

val len : 'a1 list -> n

val nthN : 'a1 list -> n -> 'a1 option

val firstnN : n -> 'a1 list -> 'a1 list

val skipnN : n -> 'a1 list -> 'a1 list

val setN : 'a1 list -> n -> 'a1 -> 'a1 list

val idx : 'a1 list -> n -> 'a1 outcome

val uidx : 'a1 list -> n -> 'a1 outcome

val countN : n -> n list -> n

val chunks_aux : nat -> 'a1 list -> nat -> 'a1 list list

val chunks : nat -> 'a1 list -> 'a1 list list

val last_opt : 'a1 list -> 'a1 option

val set_last : 'a1 list -> 'a1 -> 'a1 list

val maxN : n list -> n

val sumN : n list -> n

val seqN : n -> nat -> n list

val rank_spec : n list -> n -> n -> n

val select_from : n list -> n -> n -> n -> n option

val select_spec : n list -> n -> n -> n option

val get_spec : 'a1 list -> n -> 'a1 option

val lINE_SHIFT : n

val lINE_MASK : n

val pUSH_LINE_MASK : n

val pUSH_POS_STEP : n

val qV_SYM_MASK : n

val qV_WORD_SHIFT : n

val qV_WORD_MASK : n

val qV_LOW_PLANE : n

val qVG_WORD_SHIFT : n

val qVG_WORD_MASK : n

val qVG_LOW_PLANE : n

val qVR_WORD_SHIFT : n

val qVR_WORD_MASK : n

val qV_LEN_SHIFT : n

val sB_SHIFT : n

val sB_SHIFT_GR : n

val bLK_BITS_GR : n

val bLK_MASK_GR : n

val sB_SHIFT_GC : n

val bLK_LIMIT : n

val sET_BLOCK_ID_LIMIT : n

val bLK_BITS : n

val bLK_MASK_BP : n

val bLK_BITS_BP : n

val bLOCKS_IN_SB : n

val rS_BLOCKS_IN_SB : n

val sELECT_NUM_SAMPLES : n

val mAX_LEN : n

val rANK_BLOCK_MASK : n

val k_ONES_STEP4 : n

val k_ONES_STEP8 : n

val k_LAMBDAS_STEP8 : n

val sIW_M1 : n

val sIW_M2 : n

val sIW_M3 : n

val sIW_PLACE_MUL : n

val sIW_NOTFOUND : n

val sIW_BYTE_MASK : n

val bV_LINE_BITS : n

val bV_PUSH_MOD : n

val bV_EXT_ROUND : n

val bV_EXT_DIV : n

val bV_SET_SHIFT : n

val bV_SET_MASK : n

val bV_SETBITS_SHIFT : n

val bV_SETBITS_MOD : n

val rSN_BLOCK_SIZE : n

val rSN_ONES_PER_HINT : n

val rSN_ZEROS_PER_HINT : n

val rSN_SUB_BITS : n

val rSN_SUB_BITS_TAIL : n

val rSN_SBR_BITS : n

val rSN_SBR_MASK : n

val rSW_BLOCK_WORDS : n

val rSW_SUPERBLOCK_WORDS : n

val rSW_ONES_PER_HINT : n

val rSW_ZEROS_PER_HINT : n

val rSW_BLK_BITS : n

val rSW_BLK_BITS_TAIL : n

val rSW_SB_SHIFT : n

val rSW_SB_SHIFT_RD : n

val rSW_BLK_BITS_RD : n

val rSW_BLK_MASK : n

val dA_BLOCK : n

val dA_SUBBLOCK : n

val dA_MAX_DIST : n

val pFS_SHIFT : n

val pFS_SHIFT_HQ : n

val lINE_SYMS : n

val lINE_SYMS_nat : nat

type qvec = { qv_data : n list list; qv_position : n }

val zero_line : n list

val line_set_symbol : n list -> n -> n -> n list

val line_get_unchecked : n list -> n -> n outcome

val line_rank_unchecked : n list -> n -> n -> n outcome

val qvb_new : qvec

val qvb_push : qvec -> n -> qvec outcome

val as_u8 : z -> n

val qvb_extend : qvec -> z list -> qvec outcome

val qv_from_iter : z list -> qvec outcome

val qvb_push_all : qvec -> n list -> qvec outcome

val qv_len : qvec -> n

val qv_is_empty : qvec -> bool

val qv_get_unchecked : qvec -> n -> n outcome

val qv_get : qvec -> n -> n option outcome

val qvit_next : qvec -> n -> (n option * n) outcome

val sb_new : n list -> n list

val sb_get_rank : n list -> n -> n -> n outcome

val sb_get_superblock_counter : n list -> n -> n outcome

val sb_set_block_counters : n list -> n -> n list -> n list outcome

val sb_block_pred_loop : n -> n -> n -> n -> nat -> n * n

val sb_block_predecessor : n list -> n -> n -> (n * n) outcome

type rssupport = { rs_superblocks : n list list; rs_samples : n list list }

type rsb_state = { b_i : n; b_sbc : n list; b_bc : n list; b_occ : n list;
                   b_samples : n list list; b_sbs : n list list }

val incr : n list -> n -> n list outcome

val rsb_boundaries : n -> rsb_state -> rsb_state outcome

val rsb_symbol : n -> rsb_state -> n -> rsb_state outcome

val rsb_loop : n -> rsb_state -> n list -> rsb_state outcome

val rss_new : n -> n list -> rssupport outcome

val rss_superblock_index : n -> n -> n

val rss_block_index : n -> n -> n

val rss_rank_block : n -> rssupport -> n -> n -> n outcome

val rss_scan : rssupport -> n -> n -> n -> n -> n -> nat -> n outcome

val rss_select_block : n -> rssupport -> n -> n -> (n * n) outcome

type rsq = { rsq_qv : qvec; rsq_rs : rssupport; rsq_occs_smaller : n list }

val qv_iter_all : qvec -> n -> nat -> n list outcome

val qv_symbols : qvec -> n list outcome

val occs_smaller_of : n list -> n list

val rsq_from_qv : n -> qvec -> rsq outcome

val rsq_new : n -> n list -> rsq outcome

val rsq_default : n -> rsq outcome

val rsq_len : rsq -> n

val rsq_is_empty : rsq -> bool

val rsq_get : rsq -> n -> n option outcome

val rsq_get_unchecked : rsq -> n -> n outcome

val rsq_rank_intra_block : n -> rsq -> n -> n -> n outcome

val rsq_rank_unchecked : n -> rsq -> n -> n -> n outcome

val rsq_rank : n -> rsq -> n -> n -> n option outcome

val rsq_occs_unchecked : rsq -> n -> n outcome

val rsq_occs : rsq -> n -> n option outcome

val rsq_occs_smaller_unchecked : rsq -> n -> n outcome

val rsq_occs_smaller_q : rsq -> n -> n option outcome

val find_kth : n -> n list -> n -> n -> n option

val half_select : n -> n list -> n -> n

val sel_line : n -> n list -> n -> n -> (n option * n) * n

val rsq_select_intra_block : n -> rsq -> n -> n -> n -> n outcome

val rsq_select : n -> rsq -> n -> n -> n option outcome

val rsq_select_unchecked : n -> rsq -> n -> n -> n outcome

val mapo : ('a1 -> 'a2 outcome) -> 'a1 list -> 'a2 list outcome

val msb : n -> n

val two_bits : n -> n -> n -> n outcome

val stable_partition_of_4 : n -> n list -> n -> n list outcome

type qwt = { q_n : n; q_n_levels : n; q_sigma : n; q_qvs : rsq list }

val qwt_levels : n -> n -> n list -> n -> nat -> rsq list outcome

val qwt_new : n -> n -> n list -> qwt outcome

val qwt_default : qwt

val qwt_len : qwt -> n

val qwt_is_empty : qwt -> bool

val qwt_sigma : qwt -> n option

val qwt_rank_walk :
  n -> n -> rsq list -> n -> n -> n -> n -> n -> nat -> ((n * n) * n) outcome

val qwt_rank_unchecked : n -> n -> qwt -> n -> n -> n outcome

val qwt_rank : n -> n -> qwt -> n -> n -> n option outcome

val qwt_get_walk : n -> n -> rsq list -> n -> n -> n -> nat -> (n * n) outcome

val qwt_get_unchecked : n -> n -> qwt -> n -> n outcome

val qwt_get : n -> n -> qwt -> n -> n option outcome

val qwt_select_down :
  n -> n -> rsq list -> n -> n -> n -> n -> nat -> (n * n) list option outcome

val qwt_select_up :
  n -> n -> rsq list -> n -> n -> n -> ((n * n) * n) list -> n option outcome

val number_levels : 'a1 list -> n -> (n * 'a1) list

val qwt_select : n -> n -> qwt -> n -> n -> n option outcome

val qwt_select_unchecked : n -> n -> qwt -> n -> n -> n outcome

val qwt_estimate_walk :
  n -> n -> rsq list -> n -> n -> n -> n -> n -> nat -> unit outcome

val qwt_rank_prefetch_unchecked : n -> n -> qwt -> n -> n -> n outcome

val qwt_rank_prefetch : n -> n -> qwt -> n -> n -> n option outcome

val sel_table : n list

val popcount_pos : positive -> n

val popcount : n -> n

val bits_of : nat -> n -> n list

val m64 : n

val select_in_word : n -> n -> n outcome

val select_in_word_u128 : n -> n -> n outcome

val popcnt_wide : nat -> n list -> n

val msb_w : n -> n -> n outcome

val m128 : n

val qline_set_symbol : n list -> n -> n -> n list outcome

val qline_get_unchecked : n list -> n -> n outcome

val qline_normalize : n list -> n -> (n * n) outcome

val qline_rank_unchecked : n list -> n -> n -> n outcome

val plane_bits : (n -> n) -> n list -> n

val pack_qline : n list -> n list

type bitvec = { bv_words : n list; bv_nbits : n; bv_nones : n }

val bv_empty : bitvec

val bvl_set_symbol : n list -> n -> n -> n -> n list outcome

val bv_get_bit_slice : n list -> n -> bool outcome

val bv_get_bits_slice : n list -> n -> n -> n outcome

val bv_len : bitvec -> n

val bv_is_empty : bitvec -> bool

val bv_count_ones : bitvec -> n

val bv_count_zeros : bitvec -> n outcome

val bv_get_unchecked : bitvec -> n -> bool outcome

val bv_get : bitvec -> n -> bool option outcome

val bv_get_bits : bool -> bitvec -> n -> n -> n option outcome

val bv_get_bits_unchecked : bitvec -> n -> n -> n outcome

val bv_get_word : bitvec -> n -> n outcome

val bvm_push : bitvec -> bool -> bitvec outcome

val bvm_append_loop : bitvec -> n -> n -> nat -> bitvec outcome

val bvm_append_bits : bitvec -> n -> n -> bitvec outcome

val resize_words : n list -> n -> n list

val bvm_extend_with_zeros : bitvec -> n -> bitvec outcome

val bvm_set : bitvec -> n -> bool -> bitvec outcome

val bvm_set_bits_loop : n list -> n -> n -> n -> nat -> n list outcome

val bvm_set_bits : bitvec -> n -> n -> n -> bitvec outcome

val bvm_extend_bools : bitvec -> bool list -> bitvec outcome

val bvm_extend_positions : bitvec -> n list -> bitvec outcome

val bv_from_bools : bool list -> bitvec outcome

val bv_from_positions : n list -> bitvec outcome

val bvm_with_zeros : n -> bitvec outcome

val bvit_next : bitvec -> n -> (bool option * n) outcome

val bvit_len : bitvec -> n -> n outcome

val bvinto_next : bitvec -> n -> (bool option * n) outcome

type positer = { pi_cur_position : n; pi_cur_word_pos : n; pi_cur_word : n }

val pi_new : positer

val word_for : bool -> n -> n

val pi_with_pos : bool -> bitvec -> n -> positer

val ctz_pos : positive -> n

val ctz : n -> n

val pi_refill : bool -> n list -> positer -> nat -> positer option

val pi_next : bool -> bitvec -> positer -> n option * positer

val pi_collect : bool -> bitvec -> positer -> nat -> n list

val bv_abs : bitvec -> bool list

val notw : n -> n

val line_of : n list -> n -> n list

val line_n_ones : n list -> n

val bline_rank1_loop : n list -> n -> bool -> n

val bline_rank1 : n list -> n -> n option

val bline_select_loop : bool -> n list -> n -> n -> n -> n outcome

type rsnarrow = { rsn_bv : bitvec; rsn_pairs : n list; rsn_samples0 : 
                  n list; rsn_samples1 : n list }

type rsn_state = { ns_pairs : n list; ns_next_rank : n; ns_cur_subrank : 
                   n; ns_subranks : n; ns_s0 : n list; ns_s1 : n list;
                   ns_hint0 : n; ns_hint1 : n; ns_zeros : n }

val rsn_word : rsn_state -> n -> n -> rsn_state

val rsn_loop : rsn_state -> n -> n list -> rsn_state

val iterN : ('a1 -> 'a1) -> nat -> 'a1 -> 'a1

val rsn_new : bitvec -> rsnarrow outcome

val rsn_block_rank : rsnarrow -> n -> n outcome

val rsn_sub_block_ranks : rsnarrow -> n -> n outcome

val rsn_sub_block_rank : rsnarrow -> n -> n outcome

val rsn_rank1_unchecked : rsnarrow -> n -> n outcome

val rsn_rank1 : rsnarrow -> n -> n option outcome

val rsn_rank0 : rsnarrow -> n -> n option outcome

val rsn_n_ones : rsnarrow -> n outcome

val rsn_n_zeros : rsnarrow -> n outcome

val scan_while : (n -> n outcome) -> n -> n -> n -> nat -> n outcome

val scan_for : (n -> n outcome) -> n -> n -> n -> nat -> n outcome

val rsn_select_subblock : bool -> rsnarrow -> n -> (n * n) outcome

val rsn_select_unchecked : bool -> rsnarrow -> n -> n outcome

val rsn_select1 : rsnarrow -> n -> n option outcome

val rsn_select0 : rsnarrow -> n -> n option outcome

val rsn_get : rsnarrow -> n -> bool option outcome

type rswide = { rsw_bv : bitvec; rsw_meta : n list; rsw_samples0 : n list;
                rsw_samples1 : n list; rsw_n_zeros : n }

type rsw_state = { ws_meta : n list; ws_total : n; ws_cur : n; ws_pop : 
                   n; ws_zeros : n; ws_s0 : n list; ws_s1 : n list;
                   ws_hint0 : n; ws_hint1 : n }

val rsw_line : rsw_state -> n -> n list -> rsw_state

val rsw_loop : rsw_state -> n -> n list -> nat -> rsw_state

val rsw_new : bitvec -> rswide outcome

val rsw_n_zeros_q : rswide -> n

val rsw_n_ones : rswide -> n outcome

val rsw_superblock_rank : rswide -> n -> n outcome

val rsw_sub_block_rank : rswide -> n -> n outcome

val rsw_rank1_unchecked : rswide -> n -> n outcome

val rsw_rank1 : rswide -> n -> n option outcome

val rsw_rank0 : rswide -> n -> n option outcome

val rsw_rank0_unchecked : rswide -> n -> n outcome

val rsw_select_subblock : bool -> rswide -> n -> (n * n) outcome

val rsw_select_unchecked : bool -> rswide -> n -> n outcome

val rsw_select1 : rswide -> n -> n option outcome

val rsw_select0 : rswide -> n -> n option outcome

val rsw_get : rswide -> n -> bool option outcome

val rsw_get_unchecked : rswide -> n -> bool outcome

type inventories = { inv_n_sets : n; inv_block : z list; inv_sub : n list;
                     inv_overflow : n list }

val step_by : nat -> n list -> nat -> n list

val flush_block :
  n list -> ((z list * n list) * n list) -> ((z list * n list) * n list)
  outcome

val inv_loop :
  n list -> n list -> n -> ((z list * n list) * n list) -> n -> ((n
  list * ((z list * n list) * n list)) * n) outcome

val inv_new : bool -> bitvec -> inventories outcome

val nthZ : z list -> n -> z option

val da_scan : bool -> bitvec -> n -> n -> n -> nat -> ((n * n) * n) outcome

val da_select : bool -> bitvec -> inventories -> n -> n option outcome

type darray = { da_bv : bitvec; da_ones : inventories;
                da_zeros : inventories option }

val da_new : bool -> bitvec -> darray outcome

val da_select1 : darray -> n -> n option outcome

val da_select0 : bool -> darray -> n -> n option outcome

val da_len : darray -> n

val da_count_ones : darray -> n

val da_count_zeros : darray -> n outcome

val da_get : darray -> n -> bool option outcome

val strictly_increasing : n list -> bool

val da_from_positions : bool -> n list -> darray outcome

val da_from_bools : bool -> bool list -> darray outcome

type pcode = { pc_content : n; pc_len : n }

val pc_zero : pcode

val craft_expand : n -> n list -> n -> n -> n -> n list outcome

val craft_grow :
  n -> n list -> n -> n -> n -> n -> nat -> (n list * n) outcome

val rev_frags : n -> n -> n -> n -> nat -> n

val craft_assign :
  n -> (n * n) list -> n list -> n -> n -> n -> pcode list -> pcode list
  outcome

val craft_wm_codes : n -> (n * n) list -> n -> n -> pcode list outcome

val craft4 : (n * n) list -> n -> pcode list outcome

val craft2 : (n * n) list -> n -> pcode list outcome

val insert_sorted : (n * n) -> (n * n) list -> (n * n) list

val sort_by_key : (n * n) list -> (n * n) list

val decode_tables : pcode list -> n -> (n * n) list list

val table_lookup : (n * n) list -> n -> n outcome

type hqwt = { h_n : n; h_n_levels : n; h_codes : pcode list;
              h_decode : (n * n) list list; h_qvs : rsq list; h_lens : 
              n list }

val sym_index : n -> n

val part_with_codes : n -> n list -> n -> pcode list -> n list outcome

val hq_levels :
  n -> n list -> pcode list -> n -> nat -> (rsq list * n list) outcome

val hq_build : n -> n list -> pcode list -> hqwt outcome

val hq_new : n -> n list -> (n * n) list -> hqwt outcome

val hq_len : hqwt -> n

val hq_get_walk : n -> hqwt -> n -> n -> n -> n -> nat -> (n * n) outcome

val hq_get_unchecked : n -> n -> hqwt -> n -> n outcome

val hq_get : n -> n -> hqwt -> n -> n option outcome

val hq_code_of : hqwt -> n -> pcode option

val hq_rank_walk :
  n -> rsq list -> n -> n -> n -> n -> n -> nat -> (n * n) outcome

val hq_rank_unchecked : n -> hqwt -> n -> n -> n outcome

val hq_rank : n -> hqwt -> n -> n -> n option outcome

val hq_select_down :
  n -> rsq list -> n -> n -> n -> n -> nat -> (n * n) list option outcome

val hq_select_up :
  n -> rsq list -> n -> n -> n -> ((n * n) * n) list -> n option outcome

val hq_select : n -> hqwt -> n -> n -> n option outcome

val hq_select_unchecked : n -> hqwt -> n -> n -> n outcome

val hq_estimate_walk :
  n -> rsq list -> n -> n -> n -> n -> n -> nat -> unit outcome

val hq_rank_prefetch_unchecked : n -> hqwt -> n -> n -> n outcome

val hq_rank_prefetch : n -> hqwt -> n -> n -> n option outcome

type bwt = { w_n : n; w_n_levels : n; w_sigma : n option;
             w_codes : pcode list option;
             w_decode : (n * n) list list option; w_bvs : rswide list;
             w_lens : n list }

val one_bit : n -> n -> n -> n outcome

val stable_partition_of_2 : n -> n list -> n -> n list outcome

val wt_levels :
  n -> bool -> n list -> pcode list -> n -> n -> nat -> (rswide list * n
  list) outcome

val wt_build : n -> bool -> n list -> pcode list -> bwt outcome

val hwt_new : n -> n list -> (n * n) list -> bwt outcome

val wt_bit_at : n -> bool -> n -> n -> n -> n -> bool outcome

val wt_get_walk :
  bool -> bwt -> n -> n -> n -> n -> n -> n -> nat -> ((n * n) * n) outcome

val wt_get_unchecked : n -> bool -> bwt -> n -> n outcome

val wt_get : n -> bool -> bwt -> n -> n option outcome

val wt_valid : bool -> bwt -> n -> (n * n) option outcome

val wt_rank_walk :
  n -> bool -> rswide list -> n -> n -> n -> n -> n -> n -> nat -> (n * n)
  outcome

val wt_rank_unchecked : n -> bool -> bwt -> n -> n -> n outcome

val wt_rank : n -> bool -> bwt -> n -> n -> n option outcome

val wt_select_down :
  n -> bool -> rswide list -> n -> n -> n -> n -> n -> nat -> (n * n) list
  option outcome

val wt_select_up :
  n -> bool -> rswide list -> n -> n -> n -> n -> ((n * n) * n) list -> n
  option outcome

val wt_select : n -> bool -> bwt -> n -> n -> n option outcome

val wt_select_unchecked : n -> bool -> bwt -> n -> n -> n outcome

type ty =
| TU of nat
| TBool
| TSeq of ty
| TArr of nat * ty
| TOpt of ty
| TTuple of ty list
| TUnit

type value =
| VU of n
| VBool of bool
| VSeq of value list
| VOpt of value option
| VTuple of value list
| VUnit

val le_bytes : nat -> n -> n list

val le_value : n list -> n

val take_bytes : nat -> n list -> (n list * n list) option

val dec_nat :
  (n list -> ('a1 * n list) option) -> nat -> n list -> ('a1 list * n list)
  option

val dec_pos :
  (n list -> ('a1 * n list) option) -> positive -> n list -> ('a1 list * n
  list) option

val dec_N :
  (n list -> ('a1 * n list) option) -> n -> n list -> ('a1 list * n list)
  option

val wt : ty -> value -> bool

val encode : ty -> value -> n list

val decode : ty -> n list -> (value * n list) option

type wtit = { it_i : n; it_end : n }

val wtit_new : n -> wtit

val wtit_next : (n -> n outcome) -> wtit -> (n option * wtit) outcome

val wtit_next_back : (n -> n outcome) -> wtit -> (n option * wtit) outcome

val wtit_len : wtit -> n outcome

type pfsupport = { pf_samples : rsnarrow list; pf_shift : n }

type pfs_state = { ps_counters : n list; ps_bits : bool list;
                   ps_bvs : bool list list }

val pfs_step : n -> n -> pfs_state -> n -> n -> pfs_state outcome

val pfs_loop : n -> n -> pfs_state -> n -> n list -> pfs_state outcome

val pfs_new : n list -> n -> pfsupport outcome

val pfs_approx_rank : pfsupport -> n -> n -> n outcome

val qwt_pfs_walk :
  n -> rsq list -> pfsupport list -> n -> n -> n -> n -> n -> nat -> (n * n)
  outcome

val qwt_pfs_estimate : n -> qwt -> pfsupport list -> n -> n -> n outcome

val qwt_pfs_levels : n -> n list -> n -> nat -> pfsupport list outcome

val qwt_pfs_new : n -> n list -> pfsupport list outcome

val qwt_rank_prefetch_pfs :
  n -> n -> qwt -> pfsupport list -> n -> n -> n option outcome

val hq_pfs_walk :
  rsq list -> pfsupport list -> n -> n -> n -> n -> n -> nat -> (n * n)
  outcome

val hq_pfs_estimate : hqwt -> pfsupport list -> n -> n -> n outcome

val hq_pfs_levels : n list -> pcode list -> n -> nat -> pfsupport list outcome

val hq_pfs_new : n list -> pcode list -> pfsupport list outcome

val hq_rank_prefetch_pfs :
  n -> hqwt -> pfsupport list -> n -> n -> n option outcome

type abi = { sz_rsq : n; sz_rsw : n; sz_rsn : n; sz_pfs : n; sz_code : 
             n; sz_vec : n }

val abi64 : abi

val sum_lens : 'a1 list list -> n

val qv_heap : qvec -> n

val rss_heap : rssupport -> n

val rsq_heap : rsq -> n

val bv_heap : bitvec -> n

val rsn_heap : rsnarrow -> n

val rsw_heap : rswide -> n

val inv_heap : inventories -> n

val da_heap : darray -> n

val pfs_heap : abi -> pfsupport -> n

val qwt_heap : abi -> qwt -> pfsupport list option -> n

val wt_heap_plain : abi -> bwt -> n

val qv_space : qvec -> n

val rss_space : rssupport -> n

val rsq_space : rsq -> n

val bv_space : bitvec -> n

val rsn_space : rsnarrow -> n

val rsw_space : rswide -> n

val inv_space : inventories -> n

val da_space : darray -> n

val pfs_space : pfsupport -> n

val qwt_space : qwt -> pfsupport list option -> n

val hq_space : hqwt -> pfsupport list option -> n

val wt_space : bool -> bwt -> n

val schema_0 : ty

val schema_1 : ty

val schema_2 : ty

val schema_3 : ty

val schema_4 : ty

val schema_5 : ty

val schema_6 : ty

val schema_7 : ty

val schema_8 : ty

val schema_9 : ty

val schema_10 : ty

val schema_11 : ty

val schema_12 : ty

val schema_13 : ty

val schema_14 : ty

val schema_15 : ty

val schema_16 : ty

val schema_17 : ty

val schema_18 : ty

val schema_19 : ty

val schema_20 : ty

val schema_21 : ty

val schema_22 : ty

val schema_23 : ty

val schema_24 : ty

val schema_25 : ty

val schema_26 : ty

val schema_27 : ty

val schema_28 : ty

val schema_29 : ty

val schema_30 : ty

val schema_31 : ty

val schema_32 : ty

val schema_33 : ty

val schema_34 : ty

val schema_35 : ty

val schema_36 : ty

val schema_37 : ty

val schema_38 : ty

val schema_39 : ty

val schema_40 : ty

val schema_41 : ty

val schema_42 : ty

val schema_43 : ty

val schema_44 : ty

val schema_45 : ty

val schema_46 : ty

val schema_47 : ty

val schema_48 : ty

val schema_49 : ty

val schema_50 : ty

val schema_51 : ty

val schema_52 : ty

val schema_53 : ty

val schema_54 : ty

val schema_55 : ty

val schema_56 : ty

val schema_57 : ty

val schema_58 : ty

val schema_59 : ty

val schema_60 : ty

val schema_61 : ty

val schema_62 : ty

val schema_63 : ty

val schema_64 : ty

val schema_65 : ty

val schema_66 : ty

val schema_67 : ty

val schema_68 : ty

val all_schemas : (n * ty) list

val insert_asc : n -> n list -> n list

val sort_asc : n list -> n list

val index_of : n -> n list -> n -> n option

val text_remap : n list -> n list -> (n list * n) outcome

val vseq_u : n list -> value

val qline_value : n list -> value

val qv_value : qvec -> value

val rss_value : rssupport -> value

val rsq_value : rsq -> value

val bv_value : bitvec -> value

val rsn_value : rsnarrow -> value

val rsw_value : rswide -> value

val i64_bits : z -> n

val inv_value : inventories -> value

val da_value : darray -> value

val pfs_value : pfsupport -> value

val qwt_value : qwt -> pfsupport list option -> value

val code_value : pcode -> value

val decode_value : (n * n) list list -> value

val hq_value : hqwt -> pfsupport list option -> value

val wt_value : bwt -> value

val hq_default : hqwt

val rsn_default : rsnarrow

val rsw_default : rswide
