#!/usr/bin/env python3
"""Regenerate coq/theories/Gen/*.v from /repo's current sources.

T1  named constants and hard-coded widths/masks/periods at anchored sites -> Gen/Consts.v
T2  the 2048-entry table K_SELECT_IN_BYTE                               -> Gen/SelTable.v
T4  struct field lists (serde schema)                                     -> Gen/Schema.v

A T1 site that can no longer be located keeps its reference value (tools/consts_baseline.json) and
is listed in Gen/stale_sites.json: the obligation "the model's constants are the code's constants"
is then broken for the properties whose Coq files mention that constant (tools/check.py).
A table or schema that can no longer be read is an error (exit 2) for every property.
T3 (tools/gen_leaves.py) is run from here too: Gen/Leaves{Utils,Line,SB,RSN,RSW,QV}.v.
Files are rewritten only when their content changes, so cached .vo files survive.
"""
import os, re, sys

REPO = os.environ.get("QWT_REPO", "/repo")
OUT = os.path.join(os.path.dirname(os.path.abspath(__file__)), "..", "coq", "theories", "Gen")


class GenError(Exception):
    pass


def read(rel):
    with open(os.path.join(REPO, rel)) as f:
        return f.read()


def strip_comments(src):
    # remove // line comments (keeps line structure); no block comments used in anchored sites
    return "\n".join(re.sub(r"//.*$", "", l) for l in src.split("\n"))


def fn_body(src, anchor, span=4000):
    """text following the first match of anchor (a regex), up to span chars"""
    m = re.search(anchor, src, flags=re.M)
    if not m:
        raise GenError("anchor not found: %s" % anchor)
    return src[m.start(): m.start() + span]


def intlit(s):
    s = s.replace("_", "")
    s = re.sub(r"(u8|u16|u32|u64|u128|usize|i64)$", "", s)
    if s.startswith("0x"):
        return int(s, 16)
    if s.startswith("0b"):
        return int(s, 2)
    return int(s)


def const_expr(s, env=None):
    """evaluate a tiny constant expression: ints, << * + - ( ), and names bound in env"""
    s = s.strip()
    for name, val in sorted((env or {}).items(), key=lambda kv: -len(kv[0])):
        s = re.sub(r"\b%s\b" % re.escape(name), "(%d)" % val, s)
    s = re.sub(r"\bas u128\b|\bas u64\b|\bas usize\b", "", s)
    if not re.fullmatch(r"[0-9a-fA-Fxb_ \t<*+\-()/usize]+", s):
        raise GenError("unsupported constant expression: %r" % s)
    toks = re.findall(r"0x[0-9a-fA-F_]+?(?:_?(?:usize|u128|u64|u32|u16|u8))?(?![0-9a-fA-F_])|0b[01_]+(?:usize|u128|u64|u32|u16|u8)?|[0-9][0-9_]*(?:usize|u128|u64|u32|u16|u8)?|<<|[*+\-()/]", s)
    py = "".join(str(intlit(t)) if t[0].isdigit() else ("//" if t == "/" else t) for t in toks)
    return int(eval(py, {"__builtins__": {}}))


SITES = []  # (name, file, anchor regex, value regex (1 group), doc)


def site(name, file, anchor, value, doc="", env=None):
    SITES.append((name, file, anchor, value, doc, env or {}))


# ---- qvector/mod.rs ----------------------------------------------------------------
site("LINE_SHIFT", "src/qvector/mod.rs", r"unsafe fn get_unchecked\(&self, i: usize\) -> u8 \{\s*debug_assert",
     r"let line = i >> (\w+);", "symbols per DataLine = 2^LINE_SHIFT")
site("LINE_MASK", "src/qvector/mod.rs", r"unsafe fn get_unchecked\(&self, i: usize\) -> u8 \{\s*debug_assert",
     r"let pos_in_last_line = i & (\w+);")
site("PUSH_LINE_MASK", "src/qvector/mod.rs", r"pub fn push\(&mut self, symbol: u8\)",
     r"let pos_in_last_line = \(self\.position / 2\) & (\w+);")
site("PUSH_POS_STEP", "src/qvector/mod.rs", r"pub fn push\(&mut self, symbol: u8\)", r"self\.position \+= (\w+);")
site("QV_SYM_MASK", "src/qvector/mod.rs", r"impl DataLine \{", r"const MASK: u128 = (\w+);")
site("QV_WORD_SHIFT", "src/qvector/mod.rs", r"fn set_symbol\(&mut self, symbol: u8, i: u8\)", r"let word_id_high = i >> (\w+);")
site("QV_WORD_MASK", "src/qvector/mod.rs", r"fn set_symbol\(&mut self, symbol: u8, i: u8\)", r"let cur_shift = i & (\w+);")
site("QV_LOW_PLANE", "src/qvector/mod.rs", r"fn set_symbol\(&mut self, symbol: u8, i: u8\)", r"let word_id_low = word_id_high \+ (\w+);")
site("QVG_WORD_SHIFT", "src/qvector/mod.rs", r"unsafe fn get_unchecked\(&self, i: usize\) -> u8 \{\s*let word_id_high", r"let word_id_high = i >> (\w+);")
site("QVG_WORD_MASK", "src/qvector/mod.rs", r"unsafe fn get_unchecked\(&self, i: usize\) -> u8 \{\s*let word_id_high", r"let cur_shift = i & (\w+);")
site("QVG_LOW_PLANE", "src/qvector/mod.rs", r"unsafe fn get_unchecked\(&self, i: usize\) -> u8 \{\s*let word_id_high", r"let word_id_low = word_id_high \+ (\w+);")
site("QVR_WORD_SHIFT", "src/qvector/mod.rs", r"unsafe fn rank_unchecked\(&self, symbol: u8, i: usize\)", r"let last_word = i >> (\w+);")
site("QVR_WORD_MASK", "src/qvector/mod.rs", r"unsafe fn rank_unchecked\(&self, symbol: u8, i: usize\)", r"let offset = i & (\w+);")
site("QV_LEN_SHIFT", "src/qvector/mod.rs", r"pub fn len\(&self\) -> usize \{", r"self\.position >> (\w+)")

# ---- qvector/rs_qvector/rs_support_plain.rs ------------------------------------------
RSP = "src/qvector/rs_qvector/rs_support_plain.rs"
site("SB_SHIFT", RSP, r"fn new\(sbc: &\[usize; 4\]\) -> Self", r"\(sbc\[symbol\] as u128\) << (\w+);")
site("SB_SHIFT_GR", RSP, r"fn get_rank\(&self, symbol: u8, block_id: usize\)", r"let sb = \(data >> (\w+)\) as usize;")
site("BLK_BITS_GR", RSP, r"fn get_rank\(&self, symbol: u8, block_id: usize\)", r"\(block_id - not_first\) \* (\w+)\)")
site("BLK_MASK_GR", RSP, r"fn get_rank\(&self, symbol: u8, block_id: usize\)", r"as usize & (\w+)\) \* not_first")
site("SB_SHIFT_GC", RSP, r"fn get_superblock_counter\(&self, symbol: u8\)", r"\} >> (\w+)\) as usize")
site("BLK_LIMIT", RSP, r"fn set_block_counters\(&mut self", r"assert!\(counter < \(([^)]*)\)\);")
site("SET_BLOCK_ID_LIMIT", RSP, r"fn set_block_counters\(&mut self", r"assert!\(block_id < (\w+)\);")
site("BLK_BITS", RSP, r"fn set_block_counters\(&mut self", r"<< \(\(block_id - 1\) \* (\w+)\);")
site("BLK_MASK_BP", RSP, r"pub fn block_predecessor\(&self", r"let curr_cnt = \(cnt & (\w+)\) as usize;")
site("BLK_BITS_BP", RSP, r"pub fn block_predecessor\(&self", r"cnt >>= (\w+);")
site("BLOCKS_IN_SB", RSP, r"impl SuperblockPlain \{", r"const BLOCKS_IN_SUPERBLOCK: usize = (\w+);")
site("RS_BLOCKS_IN_SB", RSP, r"impl<const B_SIZE: usize> RSSupportPlain<B_SIZE> \{\s*const SELECT", r"const BLOCKS_IN_SUPERBLOCK: usize = (\w+);")
site("SELECT_NUM_SAMPLES", RSP, r"impl<const B_SIZE: usize> RSSupportPlain<B_SIZE> \{\s*const SELECT", r"const SELECT_NUM_SAMPLES: usize = ([^;]*);")
site("MAX_LEN", RSP, r"fn new\(qv: &QVector\) -> Self", r"assert!\(qv\.len\(\) < \(([^)]*)\)\);")
site("RANK_BLOCK_MASK", RSP, r"fn rank_block\(&self, symbol: u8, i: usize\)", r"\.get_rank\(symbol, block_index & (\w+)\)")

# ---- utils/mod.rs ---------------------------------------------------------------------
UT = "src/utils/mod.rs"
site("K_ONES_STEP4", UT, r"pub fn select_in_word\(word: u64, k: u64\)", r"let k_ones_step4 = (\w+);")
site("K_ONES_STEP8", UT, r"pub fn select_in_word\(word: u64, k: u64\)", r"let k_ones_step8 = (\w+);")
site("K_LAMBDAS_STEP8", UT, r"pub fn select_in_word\(word: u64, k: u64\)", r"let k_lambdas_step8 = (\w+);")
site("SIW_M1", UT, r"pub fn select_in_word\(word: u64, k: u64\)", r"s = s - \(\(s & \((\w+) \* k_ones_step4\)\) >> 1\);")
site("SIW_M2", UT, r"pub fn select_in_word\(word: u64, k: u64\)", r"s = \(s & \((\w+) \* k_ones_step4\)\) \+ \(\(s >> 2\) & \(0x3 \* k_ones_step4\)\);")
site("SIW_M3", UT, r"pub fn select_in_word\(word: u64, k: u64\)", r"s = \(s \+ \(s >> 4\)\) & \((\w+) \* k_ones_step8\);")
site("SIW_PLACE_MUL", UT, r"pub fn select_in_word\(word: u64, k: u64\)", r"let place = geq_k_step8\.count_ones\(\) \* (\w+);")
site("SIW_NOTFOUND", UT, r"pub fn select_in_word\(word: u64, k: u64\)", r"if place == (\w+) \{")
site("SIW_BYTE_MASK", UT, r"pub fn select_in_word\(word: u64, k: u64\)", r"let byte_rank = k - \(\(\(byte_sums << 8\) >> place\) & (\w+)\);")

# ---- bitvector/mod.rs -----------------------------------------------------------------
BV = "src/bitvector/mod.rs"
site("BV_LINE_BITS", BV, r"fn set_symbol\(&mut self, symbol: u64, i: usize\)", r"assert!\(i < (\w+)\);")
site("BV_PUSH_MOD", BV, r"pub fn push\(&mut self, bit: bool\)", r"let pos_in_line = self\.n_bits % (\w+);")
site("BV_EXT_ROUND", BV, r"pub fn extend_with_zeros\(&mut self, n: usize\)", r"let new_size = \(self\.n_bits \+ (\w+)\) / \w+;")
site("BV_EXT_DIV", BV, r"pub fn extend_with_zeros\(&mut self, n: usize\)", r"let new_size = \(self\.n_bits \+ \w+\) / (\w+);")
site("BV_SET_SHIFT", BV, r"pub fn set\(&mut self, index: usize, bit: bool\)", r"let dl = index >> (\w+);")
site("BV_SET_MASK", BV, r"pub fn set\(&mut self, index: usize, bit: bool\)", r"let pos_in_dl = index & (\w+);")
site("BV_SETBITS_SHIFT", BV, r"pub fn set_bits\(&mut self, index: usize, len: usize, bits: u64\)", r"self\.data\[\(index \+ i\) >> (\w+)\]")
site("BV_SETBITS_MOD", BV, r"pub fn set_bits\(&mut self, index: usize, len: usize, bits: u64\)", r"\(index \+ i\) % (\w+)\)")

# ---- bitvector/rs_narrow.rs -----------------------------------------------------------
RN = "src/bitvector/rs_narrow.rs"
site("RSN_BLOCK_SIZE", RN, r"^const BLOCK_SIZE", r"const BLOCK_SIZE: usize = (\w+);")
site("RSN_ONES_PER_HINT", RN, r"^const SELECT_ONES_PER_HINT", r"const SELECT_ONES_PER_HINT: usize = ([^;]*);", env={"BLOCK_SIZE": "RSN_BLOCK_SIZE"})
site("RSN_ZEROS_PER_HINT", RN, r"^const SELECT_ZEROS_PER_HINT", r"const SELECT_ZEROS_PER_HINT: usize = ([^;]*);", env={"SELECT_ONES_PER_HINT": "RSN_ONES_PER_HINT"})
site("RSN_SUB_BITS", RN, r"pub fn new\(bv: BitVector\) -> Self", r"if shift >= 1 \{\s*subranks <<= (\w+);")
site("RSN_SUB_BITS_TAIL", RN, r"let left = BLOCK_SIZE - \(bv\.data\.len\(\) % BLOCK_SIZE\);", r"subranks <<= (\w+);")
site("RSN_SBR_BITS", RN, r"fn sub_block_rank\(&self, sub_block: usize\)", r">> \(\(7 - left\) \* (\w+)\)")
site("RSN_SBR_MASK", RN, r"fn sub_block_rank\(&self, sub_block: usize\)", r"\(\(7 - left\) \* \w+\) & (\w+);")
# ---- bitvector/rs_wide.rs -------------------------------------------------------------
RW = "src/bitvector/rs_wide.rs"
site("RSW_BLOCK_WORDS", RW, r"^const BLOCK_SIZE", r"const BLOCK_SIZE: usize = (\w+);")
site("RSW_SUPERBLOCK_WORDS", RW, r"^const SUPERBLOCK_SIZE", r"const SUPERBLOCK_SIZE: usize = ([^;]*);", env={"BLOCK_SIZE": "RSW_BLOCK_WORDS"})
site("RSW_ONES_PER_HINT", RW, r"^const SELECT_ONES_PER_HINT", r"const SELECT_ONES_PER_HINT: usize = ([^;]*);", env={"SUPERBLOCK_SIZE": "RSW_SUPERBLOCK_WORDS"})
site("RSW_ZEROS_PER_HINT", RW, r"^const SELECT_ZEROS_PER_HINT", r"const SELECT_ZEROS_PER_HINT: usize = ([^;]*);", env={"SELECT_ONES_PER_HINT": "RSW_ONES_PER_HINT"})
site("RSW_BLK_BITS", RW, r"pub fn new\(bv: BitVector\) -> Self", r"\} else \{\s*cur_metadata <<= (\w+);")
site("RSW_BLK_BITS_TAIL", RW, r"if left != 0 \{", r"cur_metadata <<= (\w+);")
site("RSW_SB_SHIFT", RW, r"cur_metadata \|= total_rank;\s*cur_metadata <<=", r"cur_metadata <<= ([^;]*);")
site("RSW_SB_SHIFT_RD", RW, r"fn superblock_rank\(&self, block: usize\)", r"\[block\] >> \(([^)]*)\)\)")
site("RSW_BLK_BITS_RD", RW, r"fn sub_block_rank\(&self, sub_block: usize\)", r">> \(\(7 - left\) \* (\w+)\)\)")
site("RSW_BLK_MASK", RW, r"fn sub_block_rank\(&self, sub_block: usize\)", r"\(\(7 - left\) \* \w+\)\) & (\w+)\)")

# ---- darray/mod.rs --------------------------------------------------------------------
DA = "src/darray/mod.rs"
site("DA_BLOCK", DA, r"^const BLOCK_SIZE", r"const BLOCK_SIZE: usize = (\w+);")
site("DA_SUBBLOCK", DA, r"^const SUBBLOCK_SIZE", r"const SUBBLOCK_SIZE: usize = (\w+);")
site("DA_MAX_DIST", DA, r"^const MAX_IN_BLOCK_DISTACE", r"const MAX_IN_BLOCK_DISTACE: usize = ([^;]*);")

# ---- quadwt/mod.rs, huffqwt.rs: prefetch sample rate -----------------------------------
site("PFS_SHIFT", "src/quadwt/mod.rs", r"pub fn new\(sequence: &mut \[T\]\) -> Self", r"PrefetchSupport::new\(&qv, (\w+)\);")
site("PFS_SHIFT_HQ", "src/quadwt/huffqwt.rs", r"pub fn new\(sequence: &mut \[T\]\) -> Self", r"PrefetchSupport::new\(&qv, (\w+)\);")


BASELINE = os.path.join(os.path.dirname(os.path.abspath(__file__)), "consts_baseline.json")
STALE = {}   # site name -> why it could not be re-read from the source (baseline value used)


def gen_consts():
    """Every site is re-read from the current source.  A site that can no longer be located keeps
    the value recorded in tools/consts_baseline.json (the reference tree) and is listed in
    Gen/stale_sites.json: the checks of the properties whose Coq files mention that constant then
    report the obligation "the model's constants are the code's constants" as broken; the other
    properties are not affected."""
    import json
    out = ["(* GENERATED by tools/gen_from_src.py from /repo sources. Do not edit. *)",
           "From Coq Require Import NArith.", "Open Scope N_scope.", ""]
    cache = {}
    values = {}
    try:
        baseline = json.load(open(BASELINE))
    except OSError:
        baseline = {}
    for name, file, anchor, value, doc, env in SITES:
        try:
            if file not in cache:
                try:
                    cache[file] = strip_comments(read(file))
                except OSError as e:
                    raise GenError("cannot read %s: %s" % (file, e))
            try:
                body = fn_body(cache[file], anchor)
                m = re.search(value, body)
            except GenError:
                m = None
            if not m:
                # the same site after reformatting (line breaks / indentation changed): match on the
                # source with every whitespace run collapsed to one blank
                flat = re.sub(r"\s+", " ", cache[file])
                try:
                    body = fn_body(flat, anchor.replace("^", r"\b"))
                    m = re.search(value.replace(r"\s*", " ?"), body)
                except GenError:
                    m = None
            if not m:
                raise GenError("site %s: value pattern not found in %s after anchor" % (name, file))
            v = const_expr(m.group(1), {k: values[a] for k, a in env.items()})
        except GenError as e:
            if name not in baseline:
                raise
            v = int(baseline[name])
            STALE[name] = str(e)
            doc = "STALE: site not found in the current source, reference value kept"
        values[name] = v
        out.append("Definition %s : N := %d.%s" % (name, v, ("  (* %s *)" % doc) if doc else ""))
    out.append("")
    gen_consts.values = values
    return "\n".join(out)


DERIVED = """
(* derived names used by the model; side conditions tying the sites together are proved
   in Proofs/ConstsOk.v against the current values *)
Definition LINE_SYMS : N := 2 ^ LINE_SHIFT.
Definition LINE_SYMS_nat : nat := N.to_nat LINE_SYMS.
"""


def gen_seltable():
    src = read("src/utils/mod.rs")
    m = re.search(r"const K_SELECT_IN_BYTE: \[u8; (\d+)\] = \[(.*?)\];", src, flags=re.S)
    if not m:
        raise GenError("K_SELECT_IN_BYTE not found")
    n = int(m.group(1))
    body = re.sub(r"//.*", "", m.group(2))
    vals = [intlit(x) for x in re.findall(r"[0-9][0-9a-fA-Fx_]*", body)]
    if len(vals) != n:
        raise GenError("K_SELECT_IN_BYTE: %d entries found, %d declared" % (len(vals), n))
    out = ["(* GENERATED by tools/gen_from_src.py from src/utils/mod.rs (K_SELECT_IN_BYTE). Do not edit. *)",
           "From Coq Require Import NArith List.", "Import ListNotations.", "Open Scope N_scope.", "",
           "Definition sel_table : list N := ["]
    rows = []
    for i in range(0, n, 32):
        rows.append("  " + "; ".join(str(v) for v in vals[i:i + 32]))
    out.append(";\n".join(rows))
    out.append("].")
    out.append("")
    return "\n".join(out)



# ----------------------------------------------------------------------------- T4: schemas
STRUCT_FILES = ["src/qvector/mod.rs", "src/qvector/rs_qvector.rs", "src/qvector/rs_qvector/rs_support_plain.rs",
                "src/bitvector/mod.rs", "src/bitvector/rs_narrow.rs", "src/bitvector/rs_wide.rs", "src/darray/mod.rs",
                "src/quadwt/mod.rs", "src/quadwt/huffqwt.rs", "src/quadwt/prefetch_support.rs", "src/binwt/mod.rs"]
PRIMS = {"usize": "(TU 8)", "u64": "(TU 8)", "i64": "(TU 8)", "u32": "(TU 4)", "u16": "(TU 2)", "u8": "(TU 1)", "u128": "(TU 16)", "bool": "TBool"}


def split_top(s, sep=","):
    out, depth, cur = [], 0, ""
    for ch in s:
        if ch in "<([{":
            depth += 1
        elif ch in ">)]}":
            depth -= 1
        if ch == sep and depth == 0:
            out.append(cur)
            cur = ""
        else:
            cur += ch
    if cur.strip():
        out.append(cur)
    return [x.strip() for x in out]


def parse_structs():
    """returns {qualified name: dict(generics=[...], fields=[(name, type)], complete=bool, file=...)}"""
    structs = {}
    for f in STRUCT_FILES:
        src = strip_comments(read(f))
        for m in re.finditer(r"((?:#\[[^\]]*\]\s*)+)(?:pub\s+)?struct\s+(\w+)\s*(<[^{;]*>)?\s*\{(.*?)\n\}", src, flags=re.S):
            attrs, name, gen, body = m.group(1), m.group(2), m.group(3) or "", m.group(4)
            if "Serialize" not in attrs:
                continue
            complete = ("Deserialize" in attrs) and ("serde(" not in attrs) and ("serde(" not in body)
            generics = []
            for g in split_top(gen.strip()[1:-1]) if gen.strip() else []:
                g = g.split("=")[0].strip()
                if g.startswith("const "):
                    generics.append(("const", g.split()[1].rstrip(":")))
                else:
                    generics.append(("type", g.split(":")[0].strip()))
            fields = []
            for fld in split_top(body):
                fld = re.sub(r"#\[[^\]]*\]", "", fld).strip()
                if not fld:
                    continue
                mm = re.match(r"(?:pub(?:\([^)]*\))?\s+)?(\w+)\s*:\s*(.*)$", fld, flags=re.S)
                if not mm:
                    raise GenError("cannot parse field %r of struct %s" % (fld, name))
                fields.append((mm.group(1), " ".join(mm.group(2).split())))
            key = name
            if name == "DataLine":
                key = "DataLineQ" if "qvector" in f else "DataLineB"
            structs[key] = dict(generics=generics, fields=fields, complete=complete, file=f)
    return structs


def ty_of(t, structs, file, tparams):
    t = t.strip()
    if t in PRIMS:
        return PRIMS[t]
    if t in tparams:
        return tparams[t]
    m = re.match(r"\[(.*);\s*(\w+)\]$", t)
    if m:
        return "(TArr %d %s)" % (intlit(m.group(2)), ty_of(m.group(1), structs, file, tparams))
    m = re.match(r"(?:Box<\[(.*)\]>|Vec<(.*)>)$", t)
    if m:
        return "(TSeq %s)" % ty_of(m.group(1) or m.group(2), structs, file, tparams)
    m = re.match(r"Option<(.*)>$", t)
    if m:
        return "(TOpt %s)" % ty_of(m.group(1), structs, file, tparams)
    if t.startswith("PhantomData"):
        return "TUnit"
    if t.startswith("(") and t.endswith(")"):
        return "(TTuple [%s])" % "; ".join(ty_of(x, structs, file, tparams) for x in split_top(t[1:-1]))
    m = re.match(r"(\w+)(?:<(.*)>)?$", t)
    if m:
        name = m.group(1)
        if name == "DataLine":
            name = "DataLineQ" if "qvector" in file else "DataLineB"
        if name in structs:
            st = structs[name]
            args = split_top(m.group(2)) if m.group(2) else []
            targs = [a for a, (k, _) in zip(args, st["generics"]) if k == "type"] if args else []
            return struct_ty(name, structs, [ty_of(a, structs, file, tparams) for a in targs])
    raise GenError("unsupported field type %r in %s" % (t, file))


def struct_ty(name, structs, targs):
    st = structs[name]
    tnames = [g for k, g in st["generics"] if k == "type"]
    if len(targs) < len(tnames):
        raise GenError("struct %s needs %d type arguments" % (name, len(tnames)))
    tparams = dict(zip(tnames, targs))
    return "(TTuple [%s])" % "; ".join(ty_of(t, structs, st["file"], tparams) for _, t in st["fields"])


def gen_schema():
    structs = parse_structs()
    need = ["DataLineQ", "QVector", "SuperblockPlain", "RSSupportPlain", "RSQVector", "DataLineB", "BitVector", "BitVectorMut",
            "RSNarrow", "RSWide", "Inventories", "DArray", "PrefetchSupport", "QWaveletTree", "PrefixCode", "HuffQWaveletTree", "WaveletTree"]
    for n in need:
        if n not in structs:
            raise GenError("serializable struct %s not found (derive(Serialize) missing?)" % n)
    complete = all(structs[n]["complete"] for n in need)
    rsq = struct_ty("RSQVector", structs, [struct_ty("RSSupportPlain", structs, [])])
    rsw = struct_ty("RSWide", structs, [])
    entries = []      # (kind, elem, coq ty)
    elems = {"u8": "TU 1", "u16": "TU 2", "u32": "TU 4", "u64": "TU 8", "usize": "TU 8", "u128": "TU 16"}
    for kind in ["qwt256", "qwt512", "qwt256pfs", "qwt512pfs"]:
        for e, te in elems.items():
            entries.append((kind, e, struct_ty("QWaveletTree", structs, ["(%s)" % te, rsq])))
    for kind in ["hqwt256", "hqwt512", "hqwt256pfs", "hqwt512pfs"]:
        for e, te in elems.items():
            entries.append((kind, e, struct_ty("HuffQWaveletTree", structs, ["(%s)" % te, rsq])))
    for kind in ["wt", "hwt"]:
        for e, te in elems.items():
            entries.append((kind, e, struct_ty("WaveletTree", structs, ["(%s)" % te, rsw])))
    for kind in ["rsq256", "rsq512"]:
        entries.append((kind, "*", rsq))
    entries.append(("qv", "*", struct_ty("QVector", structs, [])))
    entries.append(("bv", "*", struct_ty("BitVector", structs, [])))
    entries.append(("bvm", "*", struct_ty("BitVectorMut", structs, [])))
    entries.append(("rsn", "*", struct_ty("RSNarrow", structs, [])))
    entries.append(("rsw", "*", rsw))
    entries.append(("darray0", "*", struct_ty("DArray", structs, [])))
    entries.append(("darray1", "*", struct_ty("DArray", structs, [])))
    out = ["(* GENERATED by tools/gen_from_src.py from the struct definitions of /repo/src. Do not edit. *)",
           "From QwtModel Require Import Serde.", "Open Scope N_scope.", "",
           "(* true iff every serializable struct derives Serialize and Deserialize and carries no #[serde(..)] attribute *)",
           "Definition schema_complete : bool := %s." % ("true" if complete else "false"), ""]
    names = []
    idmap = {}
    for i, (kind, e, t) in enumerate(entries):
        out.append("Definition schema_%d : ty := %s.  (* %s %s *)" % (i, t, kind, e))
        names.append("(%d, schema_%d)" % (i, i))
        idmap["%s:%s" % (kind, e)] = i
    out.append("")
    out.append("Definition all_schemas : list (N * ty) := [%s]." % "; ".join(names))
    out.append("")
    return "\n".join(out), idmap


def write_if_changed(path, content):
    old = None
    if os.path.exists(path):
        with open(path) as f:
            old = f.read()
    if old != content:
        with open(path, "w") as f:
            f.write(content)
        return True
    return False


T5_GROUPS = (("bv", "FnsBv.v"), ("rsn2", "FnsRsn2.v"), ("rsw2", "FnsRsw2.v"), ("rss", "FnsRss.v"),
             ("qv2", "FnsQv2.v"), ("rsq", "FnsRsq.v"), ("qwt", "FnsQwt.v"), ("hqwt", "FnsHqwt.v"), ("wt", "FnsWt.v"), ("da", "FnsDa.v"), ("bvm", "FnsBvm.v"),
             ("utils", "FnsUtils.v"), ("qvb", "FnsQvb.v"), ("qwtnew", "FnsQwtnew.v"), ("wtnew", "FnsWtnew.v"), ("iters", "FnsIters.v"),
             ("craft", "FnsCraft.v"), ("craft2", "FnsCraft2.v"), ("titers", "FnsTiters.v"),
             ("bvnew", "FnsBvnew.v"), ("danew", "FnsDanew.v"))


def main():
    os.makedirs(OUT, exist_ok=True)
    try:
        consts = gen_consts() + DERIVED
    except GenError as e:
        print("GEN-ERROR %s" % e)
        return 2
    ch = write_if_changed(os.path.join(OUT, "Consts.v"), consts)
    print("gen: Consts.v %s" % ("rewritten" if ch else "unchanged"))
    import json as _json
    write_if_changed(os.path.join(OUT, "stale_sites.json"), _json.dumps(STALE, indent=0, sort_keys=True))
    for k, v in sorted(STALE.items()):
        print("gen: STALE site %s (%s)" % (k, v))
    if "--write-baseline" in sys.argv:
        if STALE:
            print("refusing to write a baseline with stale sites")
            return 2
        with open(BASELINE, "w") as f:
            _json.dump({k: str(v) for k, v in gen_consts.values.items()}, f, indent=0, sort_keys=True)
        print("gen: baseline written (%d sites)" % len(gen_consts.values))
    try:
        tab = gen_seltable()
    except GenError as e:
        print("GEN-ERROR %s" % e)
        return 2
    ch = write_if_changed(os.path.join(OUT, "SelTable.v"), tab)
    print("gen: SelTable.v %s" % ("rewritten" if ch else "unchanged"))
    try:
        sch, idmap = gen_schema()
    except GenError as e:
        print("GEN-ERROR %s" % e)
        return 2
    ch = write_if_changed(os.path.join(OUT, "Schema.v"), sch)
    import json
    write_if_changed(os.path.join(OUT, "schema_ids.json"), json.dumps(idmap, indent=0, sort_keys=True))
    print("gen: Schema.v %s" % ("rewritten" if ch else "unchanged"))
    # T3: the integer leaf functions, translated from the Rust source (tools/gen_leaves.py).
    # A source the translator cannot read must not stop the other properties: a stub is written
    # instead, so that exactly the obligations that depend on Proofs/LeavesOk.v no longer check.
    import subprocess
    for group, fname in (("utils", "LeavesUtils.v"), ("line", "LeavesLine.v"), ("sb", "LeavesSB.v"),
                         ("rsn", "LeavesRSN.v"), ("rsw", "LeavesRSW.v"), ("qv", "LeavesQV.v")):
        leaves = os.path.join(OUT, fname)
        p = subprocess.run([sys.executable, os.path.join(os.path.dirname(os.path.abspath(__file__)), "gen_leaves.py"),
                            "--repo", REPO, "--out", leaves, "--group", group],
                           stdout=subprocess.PIPE, stderr=subprocess.STDOUT)
        msg = p.stdout.decode(errors="replace").strip()
        if p.returncode != 0:
            one = " ".join(msg.split())[-300:].replace("*)", "* )").replace("(*", "( *")
            write_if_changed(leaves, "(* gen_leaves failed: %s *)\nDefinition gen_leaves_failed : unit := tt.\n" % one)
            print("gen: %s STUB (gen_leaves exit %d: %s)" % (fname, p.returncode, one))
        else:
            print("gen: %s ok" % fname)
    # T5: the query algorithms (loops, searches, checked wrappers), translated by tools/gen_fns.py
    for group, fname in T5_GROUPS:
        out = os.path.join(OUT, fname)
        p = subprocess.run([sys.executable, os.path.join(os.path.dirname(os.path.abspath(__file__)), "gen_fns.py"),
                            "--repo", REPO, "--out", out, "--group", group],
                           stdout=subprocess.PIPE, stderr=subprocess.STDOUT)
        msg = p.stdout.decode(errors="replace").strip()
        if p.returncode != 0:
            one = " ".join(msg.split())[-300:].replace("*)", "* )").replace("(*", "( *")
            write_if_changed(out, "(* gen_fns failed: %s *)\nDefinition gen_fns_failed : unit := tt.\n" % one)
            print("gen: %s STUB (gen_fns exit %d: %s)" % (fname, p.returncode, one))
        else:
            print("gen: %s ok" % fname)
    return 0


if __name__ == "__main__":
    sys.exit(main())
