"""Per-property configuration: case generators, profiles, trusted base, known-finding predicates."""
import cases as C
from cases import Case, MAXU, WIDTH

TRUSTED_BASE = [
    "Coq 8.16.1 kernel (coqc, full .vo build; vm_compute used in finite-domain lemmas; no native_compute)",
    "no axioms declared in the development (grep + Print Assumptions audited on every run)",
    "tools/gen_from_src.py: extraction of constants / table / struct schemas from /repo sources into Gen/*.v",
    "Coq extraction (ExtrOcamlBasic only; no Extract Constant / Extract Inductive of our own) + OCaml 4.13.1 + ocaml/driver.ml (parsing/printing)",
    "Rust harness (/verif/harness), native spec oracle, Python orchestration and generators: decide nothing universal",
    "rustc integer / slice / Vec semantics as modelled in Base/Outcome.v; serde+bincode; minimum_redundancy (external crates, not modelled)",
    "hand-written model of /repo/src (theories/Model/*.v): tied to the code by the correspondence run, not verified directly",
]
AXIOM_PROPS = {"C15"}   # properties whose theorems may use the Reals axioms of the standard library


def sizes(tier, quick, thorough):
    return thorough if tier == "thorough" else quick


# ------------------------------------------------------------------------------- C13
QV_ELEMS = ["u8", "u16", "u32", "u64", "usize", "u128", "i8", "i16", "i32", "i64", "isize", "i128"]
QV_RANGE = {"u8": (0, 255), "u16": (0, 2 ** 16 - 1), "u32": (0, 2 ** 32 - 1), "u64": (0, 2 ** 64 - 1), "usize": (0, 2 ** 64 - 1),
            "u128": (0, 2 ** 128 - 1), "i8": (-128, 127), "i16": (-2 ** 15, 2 ** 15 - 1), "i32": (-2 ** 31, 2 ** 31 - 1),
            "i64": (-2 ** 63, 2 ** 63 - 1), "isize": (-2 ** 63, 2 ** 63 - 1), "i128": (-2 ** 127, 2 ** 127 - 1)}


def gen_c13(rng, tier):
    out = []
    ncases = sizes(tier, 70, 400)
    for k in range(ncases):
        elem = QV_ELEMS[k % len(QV_ELEMS)]
        lo, hi = QV_RANGE[elem]
        n = rng.choice([0, 1, 2, 3, 127, 128, 129, 255, 256, 257, 383, 384, 385, 511, 512, 513, 700, 1024, 1025]) if rng.random() < 0.8 else rng.randrange(0, 3000)
        style = rng.choice(["small", "full", "edges", "neg"])
        vals = []
        for _ in range(n):
            if style == "small":
                v = rng.randrange(0, 4)
            elif style == "full":
                v = rng.randrange(lo, hi + 1)
            elif style == "edges":
                v = rng.choice([lo, hi, lo + 1, hi - 1, 0, 3, 4, 5, 255 if hi >= 255 else hi, 256 if hi >= 256 else 0])
            else:
                v = rng.randrange(lo, 1) if lo < 0 else rng.randrange(0, min(hi, 1000) + 1)
            vals.append(v)
        path = rng.choice(["collect", "builder", "extend"])
        c = Case("c13-%d" % k, tags=dict(elem=elem, n=n, style=style, path=path, trivial=(n == 0), cost=n * 3))
        c.add(C.new_line("qv", elem, path, vals))
        c.add("Q len")
        c.add("Q isempty")
        c.add("Q getall")
        c.add("Q get %d" % MAXU)
        c.add("ITER iter " + "n" * (n + 3))
        c.add("ITER into " + "n" * min(n + 3, 50))
        out.append(c)
    c = Case("c13-default", tags=dict(path="default", trivial=True))
    c.add("NEW qv u8 default 0")
    c.add("Q len")
    c.add("Q isempty")
    c.add("Q getall")
    out.append(c)
    return out


# ------------------------------------------------------------------------------- C05
def rsq_case(rng, cid, kind, n, tier, path=None, sweep=True):
    s, mix = C.gen_quad_seq(rng, n)
    # occasionally carry values above 3 (they are truncated to 2 bits)
    vals = [v + 4 * rng.randrange(0, 60) for v in s] if rng.random() < 0.2 else s
    path = path or rng.choice(["new", "from", "collect"])
    c = Case(cid, tags=dict(kind=kind, n=n, mix=mix, path=path, trivial=(n == 0), cost=n * 40 if sweep else n * 4))
    c.add(C.new_line(kind, "u64", path, vals))
    c.add("Q len")
    c.add("Q isempty")
    for sym in [0, 1, 2, 3]:
        c.add("Q occs %d" % sym)
        c.add("Q occssmaller %d" % sym)
    for sym in [4, 5, 7, 255]:
        c.add("Q occs %d" % sym)
        c.add("Q occssmaller %d" % sym)
        c.add("Q rank %d %d" % (sym, rng.randrange(0, n + 2)))
        c.add("Q select %d %d" % (sym, rng.randrange(0, n + 2)))
    if sweep:
        c.add("Q getall")
        for sym in [0, 1, 2, 3]:
            c.add("Q rankall %d" % sym)
            c.add("Q selectall %d %d" % (sym, s.count(sym) + 1))
    else:
        for _ in range(60):
            sym = rng.randrange(4)
            c.add("Q rank %d %d" % (sym, rng.choice([0, n, n + 1, rng.randrange(n + 1)])))
            occ = s.count(sym)
            c.add("Q select %d %d" % (sym, rng.choice([0, occ, max(occ - 1, 0), rng.randrange(occ + 1)])))
            c.add("Q get %d" % rng.randrange(n + 2))
    for sym in [0, 1, 2, 3]:
        c.add("Q rank %d %d" % (sym, MAXU))
        c.add("Q select %d %d" % (sym, MAXU))
    c.add("Q get %d" % MAXU)
    return c


def gen_c05(rng, tier):
    out = []
    lens = [0, 1, 2, 127, 128, 129, 255, 256, 257, 511, 512, 513, 1023, 1024, 2047, 2048, 2049, 4095, 4096, 4097]
    k = 0
    for n in lens:
        for kind in (["rsq256", "rsq512"] if (n % 2 or n < 600) else [rng.choice(["rsq256", "rsq512"])]):
            out.append(rsq_case(rng, "c05-%d" % k, kind, n, tier))
            k += 1
    # around the select sampling period (8192 occurrences of one symbol) and several superblocks
    for n in sizes(tier, [8191, 8193, 12000, 16385], [8191, 8192, 8193, 16384, 16385, 24577, 40000, 65537, 100001]):
        for kind in ["rsq256", "rsq512"]:
            c = rsq_case(rng, "c05-%d" % k, kind, n, tier, sweep=(n <= 8193 and kind == "rsq256"))
            c.model = n <= 16385
            out.append(c)
            k += 1
    for kind in ["rsq256", "rsq512"]:
        c = Case("c05-default-%s" % kind, tags=dict(kind=kind, path="default", trivial=True))
        c.add("NEW %s u64 default 0" % kind)
        for l in ["Q len", "Q isempty", "Q get 0", "Q rank 0 0", "Q rank 3 0", "Q rank 0 1", "Q select 0 0", "Q select 3 0", "Q occs 0", "Q occssmaller 3"]:
            c.add(l)
        out.append(c)
    return out


# ------------------------------------------------------------------------------- C01
QWT_KINDS = ["qwt256", "qwt512", "qwt256pfs", "qwt512pfs"]
ELEMS = ["u8", "u16", "u32", "u64", "usize", "u128"]


def tree_case(rng, cid, kind, elem, tier, family, n=None, maxsym=None, sweep=None, cap_sym=None, paths=("new", "from", "collect")):
    width = WIDTH[elem]
    n = C.pick_len(rng, tier) if n is None else n
    mx = C.pick_max_symbol(rng, width, cap=cap_sym) if maxsym is None else maxsym
    alpha, astyle = C.gen_alphabet(rng, mx)
    seq, mix = C.gen_seq(rng, n, alpha)
    path = rng.choice(list(paths))
    if sweep is None:
        sweep = n <= 2100
    c = Case(cid, tags=dict(kind=kind, elem=elem, n=n, maxsym_bits=mx.bit_length(), alphabet=astyle, mix=mix, path=path,
                            trivial=(n == 0), cost=n * (20 if sweep else 3) * max(1, mx.bit_length() // 2)))
    c.add(C.new_line(kind, elem, path, seq))
    C.tree_queries(c, rng, seq, width, family, sweep=sweep, extra_ops=())
    c.seq = seq
    return c


def gen_c01(rng, tier):
    out = []
    k = 0
    ncases = sizes(tier, 90, 500)
    for _ in range(ncases):
        kind = QWT_KINDS[k % 4]
        elem = ELEMS[(k // 4) % 6]
        c = tree_case(rng, "c01-%d" % k, kind, elem, tier, "q")
        c.model = c.tags["n"] <= 5000 and not kind.endswith("pfs") or c.tags["n"] <= 5000
        out.append(c)
        k += 1
    for kind in QWT_KINDS:
        for elem in ["u8", "u128"]:
            c = Case("c01-empty-%s-%s" % (kind, elem), tags=dict(kind=kind, elem=elem, n=0, trivial=True))
            c.add("NEW %s %s %s 0" % (kind, elem, rng.choice(["new", "from", "collect"])))
            for l in ["Q len", "Q isempty", "Q sigma", "Q nlevels", "Q get 0", "Q rank 0 0", "Q rank 0 1", "Q rank 1 0", "Q select 0 0", "Q select 0 5", "Q select 7 0",
                      "Q rankp 0 0", "Q select 0 %d" % MAXU, "Q rank 0 %d" % MAXU]:
                c.add(l)
            out.append(c)
    return out


# ------------------------------------------------------------------------------- C02
HQ_KINDS = ["hqwt256", "hqwt512", "hqwt256pfs", "hqwt512pfs"]


def huff_case(rng, cid, kind, elem, tier, family, n=None, sweep=None, alpha_size=None, mix=None):
    width = WIDTH[elem]
    n = C.pick_len(rng, tier) if n is None else n
    # symbols are bounded by memory (table indexed by symbol value)
    cap = min(2 ** width - 1, rng.choice([3, 4, 5, 16, 17, 64, 255, 300, 1000, 5000]))
    k = alpha_size or rng.choice([1, 2, 3, 4, 5, 6, 7, 8, 9, 10, 13, 16, 17, 22, 40, 64, 65])
    k = min(k, cap + 1)
    alpha = sorted(rng.sample(range(cap + 1), k))
    seq, mix = C.gen_seq(rng, n, alpha, mix or rng.choice(["uniform", "geometric", "fib", "fib", "runs", "rare", "constant", "periodic"]))
    path = rng.choice(["new", "from", "collect"])
    if sweep is None:
        sweep = n <= 2100
    c = Case(cid, tags=dict(kind=kind, elem=elem, n=n, alphabet=len(set(seq)), mix=mix, path=path, trivial=(n == 0),
                            cost=n * (20 if sweep else 3) * 4))
    c.add(C.new_line(kind, elem, path, seq))
    c.add("Q codes")
    extra = []
    C.tree_queries(c, rng, seq, width, family, sweep=sweep)
    if width == 128 and seq:
        # a symbol that differs from a present one only above bit 64
        s0 = rng.choice(seq)
        for q in ["Q rank %d %d" % (s0 + 2 ** 64, rng.randrange(n + 1)), "Q select %d 0" % (s0 + 2 ** 64), "Q rank %d 0" % (s0 + 2 ** 127)]:
            c.add(q)
    c.seq = seq
    return c


def gen_c02(rng, tier):
    out = []
    k = 0
    for _ in range(sizes(tier, 80, 400)):
        kind = HQ_KINDS[k % 4]
        elem = ELEMS[(k // 4) % 6]
        c = huff_case(rng, "c02-%d" % k, kind, elem, tier, "hq")
        c.model = c.tags["n"] <= 5000
        out.append(c)
        k += 1
    # alphabet sizes not of the form 3k+1 (incomplete 4-ary trees), deep codes
    for a in [2, 3, 5, 6, 8, 9, 11, 12, 14, 20, 33]:
        c = huff_case(rng, "c02-a%d" % a, rng.choice(HQ_KINDS), "u16", tier, "hq", n=rng.choice([200, 700, 1500]), alpha_size=a, mix=rng.choice(["fib", "uniform", "geometric"]))
        out.append(c)
    for kind in HQ_KINDS:
        c = Case("c02-empty-%s" % kind, tags=dict(kind=kind, n=0, trivial=True))
        c.add("NEW %s u32 %s 0" % (kind, rng.choice(["new", "from", "collect"])))
        for l in ["Q len", "Q isempty", "Q nlevels", "Q get 0", "Q rank 0 0", "Q rank 0 1", "Q select 0 0", "Q select 7 3", "Q rankp 0 0", "Q select 0 %d" % MAXU]:
            c.add(l)
        out.append(c)
    return out


# ------------------------------------------------------------------------------- C03
def gen_c03(rng, tier):
    out = []
    k = 0
    for _ in range(sizes(tier, 50, 250)):
        elem = ELEMS[k % 6]
        c = tree_case(rng, "c03-w%d" % k, "wt", elem, tier, "w")
        c.model = c.tags["n"] <= 4000
        out.append(c)
        k += 1
    for _ in range(sizes(tier, 50, 250)):
        elem = ELEMS[k % 6]
        c = huff_case(rng, "c03-h%d" % k, "hwt", elem, tier, "hw")
        c.model = c.tags["n"] <= 4000
        out.append(c)
        k += 1
    for kind in ["wt", "hwt"]:
        c = Case("c03-empty-%s" % kind, tags=dict(kind=kind, n=0, trivial=True))
        c.add("NEW %s u32 %s 0" % (kind, rng.choice(["new", "from", "collect"])))
        for l in ["Q len", "Q isempty", "Q nlevels", "Q get 0", "Q rank 0 0", "Q rank 0 1", "Q select 0 0", "Q select 7 3", "Q select 0 %d" % MAXU]:
            c.add(l)
        out.append(c)
    # one distinct symbol, two symbols
    for kind in ["wt", "hwt"]:
        for vals in [[7] * 5, [0] * 3, [3, 9, 3, 3, 9], [0, 1], [2 ** 40, 5, 2 ** 40]]:
            c = Case("c03-small-%s-%d" % (kind, k), tags=dict(kind=kind, n=len(vals)))
            k += 1
            if kind == "hwt" and max(vals) > 10000:
                continue
            c.add(C.new_line(kind, "u64", "from", vals))
            if kind == "hwt":
                c.add("Q codes")
            C.tree_queries(c, rng, vals, 64, "w" if kind == "wt" else "hw", sweep=True)
            out.append(c)
    return out


# ------------------------------------------------------------------------------- C06
BIT_LENS = [0, 1, 2, 63, 64, 65, 127, 128, 129, 511, 512, 513, 1023, 1024, 1025, 2047, 2048, 4095, 4096, 4097, 8191, 8192, 8193]


def bin_queries(c, rng, bits, kind, sweep=True):
    n = len(bits)
    ones = sum(bits)
    if kind == "rsw":
        c.add("Q len")
    c.add("Q nones")
    c.add("Q nzeros")
    c.add("Q tnzeros")
    if sweep:
        c.add("Q getall")
        c.add("Q rank1all")
        c.add("Q rank0all")
        c.add("Q select1all %d" % (ones + 1))
        c.add("Q select0all %d" % (n - ones + 1))
    else:
        for _ in range(80):
            i = rng.choice([0, n, n + 1, rng.randrange(n + 1)])
            c.add("Q rank1 %d" % i)
            c.add("Q rank0 %d" % i)
            c.add("Q get %d" % i)
            c.add("Q select1 %d" % rng.choice([0, ones, max(ones - 1, 0), rng.randrange(ones + 1)]))
            c.add("Q select0 %d" % rng.choice([0, n - ones, max(n - ones - 1, 0), rng.randrange(n - ones + 1)]))
    for q in ["rank1", "rank0", "select1", "select0", "get"]:
        c.add("Q %s %d" % (q, MAXU))


def gen_c06(rng, tier):
    out = []
    k = 0
    lens = BIT_LENS + sizes(tier, [32767, 32769], [16383, 16385, 32767, 32768, 32769, 65536, 100000, 262145])
    for n in lens:
        for kind in ["rsn", "rsw"]:
            reps = 2 if n < 5000 else 1
            for _ in range(reps):
                bits, mix = C.gen_bits(rng, n)
                sweep = n <= 8193
                c = Case("c06-%d" % k, tags=dict(kind=kind, n=n, mix=mix, trivial=(n == 0), cost=n * (30 if sweep else 2)))
                c.add(C.bits_line(kind, rng.choice(["new", "from"]), bits))
                bin_queries(c, rng, bits, kind, sweep)
                c.model = n <= 8193
                out.append(c)
                k += 1
    # counts of ones / zeros crossing the hint periods (1024 narrow, 8192 wide)
    for kind, per in [("rsn", 1024), ("rsw", 8192)]:
        for tgt in [per - 1, per, per + 1, 2 * per, 2 * per + 1]:
            for val in [1, 0]:
                n = tgt + rng.randrange(0, 70)
                bits = [val] * tgt + [1 - val] * (n - tgt)
                rng.shuffle(bits) if rng.random() < 0.5 else None
                c = Case("c06-h%d" % k, tags=dict(kind=kind, n=n, mix="hint-%d-%d" % (tgt, val), cost=n * 3))
                c.add(C.bits_line(kind, "new", bits))
                bin_queries(c, rng, bits, kind, sweep=(n <= 9000))
                c.model = n <= 9000
                out.append(c)
                k += 1
    for kind in ["rsn", "rsw"]:
        c = Case("c06-default-%s" % kind, tags=dict(kind=kind, n=0, path="default", trivial=True))
        c.add("NEW %s - default 0 -" % kind)
        bin_queries(c, rng, [], kind)
        out.append(c)
    return out


# ------------------------------------------------------------------------------- C07
def da_bits(rng, groups):
    """bit vector made of regions: ('d', ones, gap) dense, ('s', ones, gap) sparse ..."""
    bits = []
    for (ones, gap) in groups:
        for _ in range(ones):
            bits += [0] * rng.randrange(gap // 2, gap + 1) + [1]
    return bits


def gen_c07(rng, tier):
    out = []
    k = 0
    shapes = [
        [(10, 3)], [(1024, 1)], [(1025, 1)], [(1023, 2)], [(2048, 3)], [(3000, 10)],
        [(1024, 70)],                      # sparse group (span > 65536)
        [(1024, 64)],                      # around the threshold
        [(1024, 70), (1024, 2)],           # sparse then dense
        [(1024, 2), (1024, 70), (500, 3)],  # dense, sparse, partial dense
        [(1024, 70), (1024, 70), (1024, 1), (40, 100)],
        [(1024, 1), (1024, 1), (1024, 66), (1024, 1)],
        [(100, 700)], [(1500, 90)],
    ]
    if tier == "thorough":
        shapes += [[(1024, rng.choice([1, 2, 60, 64, 66, 80])) for _ in range(6)] for _ in range(8)]
    for sh in shapes:
        for invert in [False, True]:
            bits = da_bits(rng, sh) + [0] * rng.randrange(0, 100)
            if invert:
                bits = [1 - b for b in bits]
            n = len(bits)
            ones = sum(bits)
            kind = "darray1" if (invert or rng.random() < 0.7) else "darray0"
            path = rng.choice(["bits", "new", "pos"]) if not invert else rng.choice(["bits", "new"])
            c = Case("c07-%d" % k, tags=dict(kind=kind, n=n, ones=ones, shape=str(sh)[:60], invert=invert, path=path, cost=n // 4))
            if path == "pos":
                pos = [i for i, b in enumerate(bits) if b]
                c.add("NEW %s - pos %d %s" % (kind, len(pos), " ".join(map(str, pos))))
                n = (pos[-1] + 1) if pos else 0
            else:
                c.add(C.bits_line(kind, path, bits))
            for q in ["len", "isempty", "countones", "countzeros"]:
                c.add("Q " + q)
            c.add("Q select1all %d" % (ones + 1))
            if kind == "darray1":
                c.add("Q select0all %d" % (n - ones + 1))
            else:
                c.add("Q select0 0")
            c.add("Q select1 %d" % MAXU)
            if n <= 200000:
                c.add("Q ones")
                c.add("Q zeroswp %d" % rng.randrange(n + 2))
            for _ in range(20):
                c.add("Q get %d" % rng.randrange(n + 2))
            c.model = n <= 120000
            out.append(c)
            k += 1
    for n in [0, 1, 5, 64, 65, 600]:
        bits, mix = C.gen_bits(rng, n)
        for kind in ["darray0", "darray1"]:
            c = Case("c07-s%d" % k, tags=dict(kind=kind, n=n, mix=mix, trivial=(n == 0)))
            c.add(C.bits_line(kind, "bits", bits))
            c.add("Q len")
            c.add("Q countones")
            c.add("Q select1all %d" % (sum(bits) + 1))
            if kind == "darray1":
                c.add("Q select0all %d" % (n - sum(bits) + 1))
            c.add("Q getall")
            c.add("Q ones")
            c.add("Q zeros")
            out.append(c)
            k += 1
    for kind in ["darray0", "darray1"]:
        c = Case("c07-default-%s" % kind, tags=dict(kind=kind, n=0, path="default", trivial=True))
        c.add("NEW %s - default 0 -" % kind)
        c.add("Q len")
        c.add("Q select1 0")
        c.add("Q select0 0")
        out.append(c)
    # documented panic: positions not strictly increasing
    c = Case("c07-nonincr", tags=dict(kind="darray0", path="pos", trivial=True))
    c.add("NEW darray0 - pos 3 5 5 9")
    out.append(c)
    return out


# ------------------------------------------------------------------------------- C08
def gen_c08(rng, tier):
    out = []
    for k in range(sizes(tier, 120, 800)):
        c = Case("c08-%d" % k, tags=dict(kind="bvm"))
        start = rng.choice(["new", "default", "bits", "pos", "withzeros"])
        cur = 0
        if start in ("new", "default"):
            c.add("NEW bvm - %s 0 -" % start)
        elif start == "bits":
            bits, _ = C.gen_bits(rng, rng.choice([1, 63, 64, 65, 500, 512, 513, 700]))
            c.add(C.bits_line("bvm", "bits", bits))
            cur = len(bits)
        elif start == "pos":
            pos = sorted(rng.sample(range(0, 1200), rng.randrange(0, 30)))
            c.add("NEW bvm - pos %d %s" % (len(pos), " ".join(map(str, pos))))
            cur = (pos[-1] + 1) if pos else 0
        else:
            z = rng.choice([0, 1, 64, 511, 512, 513, 1000])
            c.add("NEW bvm - withzeros %d" % z)
            cur = z
        nops = rng.randrange(1, sizes(tier, 40, 120))
        hist = []
        for _ in range(nops):
            op = rng.choice(["push", "push", "append", "zeros", "set", "setbits", "extbits", "extpos", "bad"])
            if op == "push":
                c.add("OP push %d" % rng.randrange(2)); cur += 1
            elif op == "append":
                ln = rng.choice([0, 1, 7, 31, 32, 33, 63, 64])
                c.add("OP append %d %d" % (rng.getrandbits(ln) if ln else 0, ln)); cur += ln
            elif op == "zeros":
                z = rng.choice([0, 1, 5, 63, 64, 65, 300, 512, 600]); c.add("OP zeros %d" % z); cur += z
            elif op == "set" and cur:
                c.add("OP set %d %d" % (rng.randrange(cur), rng.randrange(2)))
            elif op == "setbits" and cur:
                ln = min(cur, rng.choice([1, 2, 7, 33, 63, 64]))
                i = rng.choice([0, cur - ln, rng.randrange(cur - ln + 1)])
                c.add("OP setbits %d %d %d" % (i, ln, rng.getrandbits(ln)))
            elif op == "extbits":
                b, _ = C.gen_bits(rng, rng.choice([0, 1, 3, 64, 70])); c.add("OP extbits %s" % ("".join(map(str, b)) or "-")); cur += len(b)
            elif op == "extpos":
                ps = [rng.randrange(0, cur + 200) for _ in range(rng.randrange(1, 4))]
                c.add("OP extpos %s" % " ".join(map(str, ps))); cur = max([cur] + [p + 1 for p in ps])
            elif op == "bad" and rng.random() < 0.3:
                # documented panics (precondition violated); the value must stay usable
                c.add(rng.choice(["OP set %d 1" % (cur + rng.randrange(3)), "OP setbits %d 3 1" % max(cur - 2, 0), "OP append 8 3", "OP setbits 0 2 7" if cur >= 2 else "OP set %d 0" % cur]))
            hist.append(op)
            if rng.random() < 0.25:
                c.add("Q len"); c.add("Q countones"); c.add("Q countzeros")
        c.tags.update(n=cur, nops=nops, start=start, cost=cur * 20)
        obs = ["Q len", "Q isempty", "Q countones", "Q countzeros", "Q bits", "Q getall", "Q ones", "Q zeros", "Q getwordall",
               "Q getword %d" % MAXU, "Q get %d" % MAXU, "Q getbits %d 1" % MAXU, "Q getbits 0 65", "Q getbits 0 0"]
        for ln in sorted(set([1, 64, rng.randrange(1, 65), rng.randrange(1, 65)])):
            obs.append("Q getbitsall %d" % ln)
        for p in [0, cur, cur + 1, cur + 700, rng.randrange(cur + 1)]:
            obs.append("Q oneswp %d" % p)
            obs.append("Q zeroswp %d" % p)
        for o in obs:
            c.add(o)
        c.add("ITER iter " + "n" * min(cur + 2, 80) + "l")
        # conversions, clone, equality
        c.add("STORE m")
        c.add("OP toimm")
        for o in obs:
            c.add(o)
        c.add("OP tomut")
        c.add("EQ m")
        c.add("CLONE")
        c.add("EQ m")
        out.append(c)
    # two vectors with the same bits built differently compare equal
    for k in range(sizes(tier, 30, 150)):
        bits, mix = C.gen_bits(rng, rng.choice([1, 64, 65, 511, 512, 513, 900]))
        c = Case("c08-eq%d" % k, tags=dict(kind="bv", n=len(bits), mix=mix))
        c.add(C.bits_line("bvm", "bits", bits))
        c.add("STORE a")
        # same content through pushes / positions / zeros+set_bits
        c.add("NEW bvm - new 0 -")
        how = rng.choice(["push", "zeros+set", "append"])
        if how == "push":
            for b in bits:
                c.add("OP push %d" % b)
        elif how == "append":
            for i in range(0, len(bits), 60):
                ch = bits[i:i + 60]
                c.add("OP append %d %d" % (sum(b << j for j, b in enumerate(ch)), len(ch)))
        else:
            c.add("OP zeros %d" % len(bits))
            c.add("OP setbits 0 %d %d" % (min(64, len(bits)), (1 << min(64, len(bits))) - 1))   # overwritten below
            for i in range(0, len(bits), 64):
                ch = bits[i:i + 64]
                c.add("OP setbits %d %d %d" % (i, len(ch), sum(b << j for j, b in enumerate(ch))))
        c.add("EQ a")
        c.add("Q countones")
        out.append(c)
    return out


PROPS = {
    "C06": dict(gen=gen_c06),
    "C07": dict(gen=gen_c07),
    "C08": dict(gen=gen_c08),
    "C02": dict(gen=gen_c02),
    "C03": dict(gen=gen_c03),
    "C13": dict(gen=gen_c13),
    "C05": dict(gen=gen_c05),
    "C01": dict(gen=gen_c01),
}

def kf_bvm_get_bits_end(ctx, f):
    """BitVectorMut::get_bits(i, len) with i + len == n_bits answers None (>= instead of >)"""
    t = ctx["cmd"]
    if ctx["kind"] != "bvm" or t[0] != "Q" or t[1] != "getbits":
        return False
    # the object must still be a BitVectorMut at this point
    kind = "bvm"
    nbits = None
    for l in ctx["lines"]:
        if l.startswith("OP toimm"):
            kind = "bv"
        if l.startswith("OP tomut"):
            kind = "bvm"
    if kind != "bvm" or f.got != "N" or not f.expected.startswith("S"):
        return False
    return True


KNOWN_PREDICATES = {"bvm_get_bits_end": kf_bvm_get_bits_end}
