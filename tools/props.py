"""Per-property configuration: case generators, profiles, trusted base, known-finding predicates."""
import cases as C
from cases import Case, MAXU, WIDTH

TRUSTED_BASE = [
    "Coq 8.16.1 kernel (coqc, full .vo build; vm_compute used in finite-domain lemmas; no native_compute)",
    "no axioms declared in the development (grep + Print Assumptions audited on every run)",
    "tools/gen_from_src.py: extraction of constants / table / struct schemas from /repo sources into Gen/*.v (a site that can no longer be read keeps its reference value and breaks the obligations that depend on it)",
    "tools/gen_leaves.py (T3): unverified translator of a small Rust subset (straight-line integer functions) into Gallina, Gen/Leaves*.v; the regenerated leaves are proved equal to the hand model (Proofs/Leaves*Ok.v)",
    "tools/gen_fns.py (T5): unverified statement-level translator (loops, searches, checked wrappers, Option/?/Vec locals, struct fields as parameters, monomorphised generics, symbolic element width) of the query algorithms into Gallina, Gen/Fns*.v; the regenerated functions are proved equal to / simulated by the hand model and composed end to end (Proofs/Fns*Ok.v; C01, C02, C05, C06)",
    "Coq extraction (ExtrOcamlBasic only; no Extract Constant / Extract Inductive of our own) + OCaml 4.13.1 + ocaml/driver.ml (parsing/printing)",
    "Rust harness (/verif/harness), native spec oracle, Python orchestration and generators: decide nothing universal",
    "rustc integer / slice / Vec semantics as modelled in Base/Outcome.v; serde+bincode; minimum_redundancy (external crates, not modelled)",
    "hand-written model of /repo/src (theories/Model/*.v): tied to the code by the correspondence run, not verified directly (constructors, code assignment, DArray, iterators, serialization, space accounting; the query paths of T5 are also regenerated)",
]
AXIOM_PROPS = {"C15"}   # properties whose theorems may use the Reals axioms of the standard library


def sizes(tier, quick, thorough):
    return thorough if tier == "thorough" else quick


# ------------------------------------------------------------------------------- C13
QV_ELEMS = ["u8", "u16", "u32", "u64", "usize", "u128", "i8", "i16", "i32", "i64", "isize", "i128"]
QV_RANGE = {"u8": (0, 255), "u16": (0, 2 ** 16 - 1), "u32": (0, 2 ** 32 - 1), "u64": (0, 2 ** 64 - 1), "usize": (0, 2 ** 64 - 1),
            "u128": (0, 2 ** 128 - 1), "i8": (-128, 127), "i16": (-2 ** 15, 2 ** 15 - 1), "i32": (-2 ** 31, 2 ** 31 - 1),
            "i64": (-2 ** 63, 2 ** 63 - 1), "isize": (-2 ** 63, 2 ** 63 - 1), "i128": (-2 ** 127, 2 ** 127 - 1)}


def gen_c13(rng, tier):
    out = []
    ncases = sizes(tier, 70, 400)
    for k in range(ncases):
        elem = QV_ELEMS[k % len(QV_ELEMS)]
        lo, hi = QV_RANGE[elem]
        n = rng.choice([0, 1, 2, 3, 127, 128, 129, 255, 256, 257, 383, 384, 385, 511, 512, 513, 700, 1024, 1025]) if rng.random() < 0.8 else rng.randrange(0, 3000)
        style = rng.choice(["small", "full", "edges", "neg"])
        vals = []
        for _ in range(n):
            if style == "small":
                v = rng.randrange(0, 4)
            elif style == "full":
                v = rng.randrange(lo, hi + 1)
            elif style == "edges":
                v = rng.choice([lo, hi, lo + 1, hi - 1, 0, 3, 4, 5, 255 if hi >= 255 else hi, 256 if hi >= 256 else 0])
            else:
                v = rng.randrange(lo, 1) if lo < 0 else rng.randrange(0, min(hi, 1000) + 1)
            vals.append(v)
        path = rng.choice(["collect", "builder", "extend", "hist", "hist"])
        if path == "hist":
            # a push / extend history: chunk boundaries at and around the line (256 symbols) and
            # half-line (128) positions, so that an extend starts, ends and passes there
            cuts = set()
            for _ in range(rng.randrange(1, 6)):
                base = rng.choice([0, 64, 128, 192, 256, 384, 512, 640, 768])
                cuts.add(max(0, min(n, base + rng.choice([-2, -1, 0, 0, 0, 1, 2, rng.randrange(-40, 40)]))))
            cuts = sorted(cuts | {n})
            toks, prev = [], 0
            for cpos in cuts:
                if cpos > prev or rng.random() < 0.1:
                    toks.append(("p" if (cpos - prev <= 3 and rng.random() < 0.6) or rng.random() < 0.15 else "e") + str(cpos - prev))
                    prev = cpos
            if toks and rng.random() < 0.4:
                toks[0] = "c" + toks[0][1:]          # the builder starts as collect::<QVectorBuilder>() of the first chunk
            path = "hist:" + ",".join(toks)
        c = Case("c13-%d" % k, tags=dict(elem=elem, n=n, style=style, path=path.split(":")[0], trivial=(n == 0), cost=n * 3))
        c.add(C.new_line("qv", elem, path, vals))
        c.add("Q len")
        c.add("Q isempty")
        c.add("Q getall")
        c.add("Q get %d" % MAXU)
        # positions whose doubling (2 bits per symbol), quadrupling or +1 wraps around 2^64 back into the vector
        for base in (2 ** 63, 2 ** 62, 2 ** 64 - 1 - n, 2 ** 63 + 2 ** 62):
            for off in sorted(set([0, 1, max(n - 1, 0), n, rng.randrange(n + 1)])):
                if base + off <= MAXU:
                    c.add("Q get %d" % (base + off))
        c.add("ITER iter " + "n" * (n + 3))
        c.add("ITER into " + "n" * min(n + 3, 50))
        # exactly a whole number of 64/128/256-symbol groups consumed, then nth: a cached group must be reloaded
        for g in (64, 128, 256, 127, 255):
            if n > g + 2:
                c.add("ITER %s %s" % (rng.choice(["iter", "into"]), "n" * g + rng.choice(["knnjnhn", "jnnknhn", "knknkn"])))
        if n > 130:
            c.add("ITER iter " + "j" * 16 + "nknjn")      # nth(7) x16 ends at position 128
        out.append(c)
    c = Case("c13-default", tags=dict(path="default", trivial=True))
    c.add("NEW qv u8 default 0")
    c.add("Q len")
    c.add("Q isempty")
    c.add("Q getall")
    out.append(c)
    return out


# ------------------------------------------------------------------------------- C05
def rsq_case(rng, cid, kind, n, tier, path=None, sweep=True):
    s, mix = C.gen_quad_seq(rng, n)
    # occasionally carry values above 3 (they are truncated to 2 bits)
    vals = [v + 4 * rng.randrange(0, 60) for v in s] if rng.random() < 0.2 else s
    path = path or rng.choice(["new", "from", "collect"])
    c = Case(cid, tags=dict(kind=kind, n=n, mix=mix, path=path, trivial=(n == 0), cost=n * 40 if sweep else n * 4))
    c.add(C.new_line(kind, "u64", path, vals))
    c.add("Q len")
    c.add("Q isempty")
    for sym in [0, 1, 2, 3]:
        c.add("Q occs %d" % sym)
        c.add("Q occssmaller %d" % sym)
    for sym in [4, 5, 7, 255]:
        c.add("Q occs %d" % sym)
        c.add("Q occssmaller %d" % sym)
        c.add("Q rank %d %d" % (sym, rng.randrange(0, n + 2)))
        c.add("Q select %d %d" % (sym, rng.randrange(0, n + 2)))
    if sweep:
        c.add("Q getall")
        for sym in [0, 1, 2, 3]:
            c.add("Q rankall %d" % sym)
            c.add("Q selectall %d %d" % (sym, s.count(sym) + 1))
    else:
        for _ in range(60):
            sym = rng.randrange(4)
            c.add("Q rank %d %d" % (sym, rng.choice([0, n, n + 1, rng.randrange(n + 1)])))
            occ = s.count(sym)
            c.add("Q select %d %d" % (sym, rng.choice([0, occ, max(occ - 1, 0), rng.randrange(occ + 1)])))
            c.add("Q get %d" % rng.randrange(n + 2))
    for sym in [0, 1, 2, 3]:
        c.add("Q rank %d %d" % (sym, MAXU))
        c.add("Q select %d %d" % (sym, MAXU))
    c.add("Q get %d" % MAXU)
    wa = C.wrap_args(rng, n)
    for a in rng.sample(wa, min(len(wa), 6)):
        c.add("Q get %d" % a)
        sym = rng.randrange(4)
        c.add("Q rank %d %d" % (sym, a))
        c.add("Q select %d %d" % (sym, a))
    return c


def gen_c05(rng, tier):
    out = []
    lens = [0, 1, 2, 127, 128, 129, 255, 256, 257, 511, 512, 513, 1023, 1024, 2047, 2048, 2049, 4095, 4096, 4097]
    k = 0
    for n in lens:
        for kind in (["rsq256", "rsq512"] if (n % 2 or n < 600) else [rng.choice(["rsq256", "rsq512"])]):
            out.append(rsq_case(rng, "c05-%d" % k, kind, n, tier))
            k += 1
    # around the select sampling period (8192 occurrences of one symbol) and several superblocks
    for n in sizes(tier, [8191, 8193, 12000, 16385], [8191, 8192, 8193, 16384, 16385, 24577, 40000, 65537, 100001]):
        for kind in ["rsq256", "rsq512"]:
            c = rsq_case(rng, "c05-%d" % k, kind, n, tier, sweep=(n <= 8193 and kind == "rsq256"))
            c.model = n <= 16385
            out.append(c)
            k += 1
    # occurrences of one symbol in clusters separated by gaps of several superblocks; totals at
    # and around multiples of the select sampling period (8192), with a long gap right after
    for kind in ["rsq256", "rsq512"]:
        sb = 2048 if kind == "rsq256" else 4096
        shapes = [
            [(300, 3 * sb), (1, 5 * sb), (40, 0)],                       # last occurrence before an empty stretch
            [(8192, 4 * sb), (5, 0)],                                    # exactly one period, then a gap
            [(8192, 0)],                                                 # total = one period exactly
            [(8191, 3 * sb), (1, 3 * sb), (8192, 6 * sb), (3, 0)],
            [(100, 2 * sb + 7), (100, 2 * sb), (100, 7 * sb + 1), (100, 0)],
        ]
        if tier == "thorough":
            shapes += [[(rng.choice([1, 50, 8191, 8192, 8193]), rng.choice([0, sb, 2 * sb, 3 * sb + 1, 9 * sb])) for _ in range(5)] for _ in range(10)]
        for sh in shapes:
            sym = rng.randrange(4)
            other = [x for x in range(4) if x != sym]
            s = []
            for (cnt, gap) in sh:
                if rng.random() < 0.5:
                    s += [sym] * cnt
                else:
                    for _ in range(cnt):
                        s += [sym] + [rng.choice(other)] * rng.randrange(0, 2)
                s += [rng.choice(other) for _ in range(gap)]
            n = len(s)
            c = Case("c05-gap%d" % k, tags=dict(kind=kind, n=n, mix="clusters+gaps", shape=str(sh)[:70], cost=n * 30))
            k += 1
            c.add(C.new_line(kind, "u64", "new", s))
            c.add("Q len")
            for q in range(4):
                c.add("Q selectall %d %d" % (q, s.count(q) + 1))
            c.add("Q rankall %d" % sym)
            c.model = n <= 45000
            out.append(c)
    for kind in ["rsq256", "rsq512"]:
        c = Case("c05-default-%s" % kind, tags=dict(kind=kind, path="default", trivial=True))
        c.add("NEW %s u64 default 0" % kind)
        for l in ["Q len", "Q isempty", "Q get 0", "Q rank 0 0", "Q rank 3 0", "Q rank 0 1", "Q select 0 0", "Q select 3 0", "Q occs 0", "Q occssmaller 3"]:
            c.add(l)
        out.append(c)
    return out


# ------------------------------------------------------------------------------- C01
QWT_KINDS = ["qwt256", "qwt512", "qwt256pfs", "qwt512pfs"]
ELEMS = ["u8", "u16", "u32", "u64", "usize", "u128"]


def tree_case(rng, cid, kind, elem, tier, family, n=None, maxsym=None, sweep=None, cap_sym=None, paths=("new", "from", "collect")):
    width = WIDTH[elem]
    n = C.pick_len(rng, tier) if n is None else n
    mx = C.pick_max_symbol(rng, width, cap=cap_sym) if maxsym is None else maxsym
    alpha, astyle = C.gen_alphabet(rng, mx)
    seq, mix = C.gen_seq(rng, n, alpha)
    path = rng.choice(list(paths))
    if sweep is None:
        sweep = n <= 2100
    c = Case(cid, tags=dict(kind=kind, elem=elem, n=n, maxsym_bits=mx.bit_length(), alphabet=astyle, mix=mix, path=path,
                            trivial=(n == 0), cost=n * (20 if sweep else 3) * max(1, mx.bit_length() // 2)))
    c.add(C.new_line(kind, elem, path, seq))
    C.tree_queries(c, rng, seq, width, family, sweep=sweep, extra_ops=())
    c.seq = seq
    return c


def gen_c01(rng, tier):
    out = []
    k = 0
    ncases = sizes(tier, 90, 500)
    for _ in range(ncases):
        kind = QWT_KINDS[k % 4]
        elem = ELEMS[(k // 4) % 6]
        c = tree_case(rng, "c01-%d" % k, kind, elem, tier, "q")
        c.model = c.tags["n"] <= 5000 and not kind.endswith("pfs") or c.tags["n"] <= 5000
        out.append(c)
        k += 1
    # symbols that need more than 32 / 64 bits, every alias
    for kind in QWT_KINDS:
        for elem, pool in [("u64", [2 ** 32, 2 ** 32 + 1, 2 ** 63, 2 ** 64 - 1, 7, 2 ** 40 + 3]),
                           ("u128", [2 ** 64, 2 ** 64 + 5, 2 ** 100, 2 ** 127, 2 ** 128 - 1, 5, 2 ** 64 - 1, 2 ** 65 + 2 ** 3]),
                           ("usize", [2 ** 63 + 1, 2 ** 33, 1, 0])]:
            n = rng.choice([7, 300, 1500])
            seq = [rng.choice(pool) for _ in range(n)]
            c = Case("c01-wide%d" % k, tags=dict(kind=kind, elem=elem, n=n, maxsym_bits=max(seq).bit_length(), mix="wide", cost=n * 1500))
            k += 1
            c.add(C.new_line(kind, elem, rng.choice(["new", "from", "collect"]), seq))
            C.tree_queries(c, rng, seq, WIDTH[elem], "q", sweep=(n <= 300))
            c.model = n <= 300
            out.append(c)
    for kind in QWT_KINDS:
        for elem in ["u8", "u128"]:
            c = Case("c01-empty-%s-%s" % (kind, elem), tags=dict(kind=kind, elem=elem, n=0, trivial=True))
            c.add("NEW %s %s %s 0" % (kind, elem, rng.choice(["new", "from", "collect"])))
            for l in ["Q len", "Q isempty", "Q sigma", "Q nlevels", "Q get 0", "Q rank 0 0", "Q rank 0 1", "Q rank 1 0", "Q select 0 0", "Q select 0 5", "Q select 7 0",
                      "Q rankp 0 0", "Q select 0 %d" % MAXU, "Q rank 0 %d" % MAXU]:
                c.add(l)
            out.append(c)
    return out


# ------------------------------------------------------------------------------- C02
HQ_KINDS = ["hqwt256", "hqwt512", "hqwt256pfs", "hqwt512pfs"]


def huff_case(rng, cid, kind, elem, tier, family, n=None, sweep=None, alpha_size=None, mix=None):
    width = WIDTH[elem]
    n = C.pick_len(rng, tier) if n is None else n
    # symbols are bounded by memory (table indexed by symbol value)
    cap = min(2 ** width - 1, rng.choice([3, 4, 5, 16, 17, 64, 255, 300, 1000, 5000]))
    k = alpha_size or rng.choice([1, 2, 3, 4, 5, 6, 7, 8, 9, 10, 13, 16, 17, 22, 40, 64, 65])
    k = min(k, cap + 1)
    alpha = sorted(rng.sample(range(cap + 1), k))
    seq, mix = C.gen_seq(rng, n, alpha, mix or rng.choice(["uniform", "geometric", "fib", "fib", "runs", "rare", "constant", "periodic"]))
    path = rng.choice(["new", "from", "collect"])
    if sweep is None:
        sweep = n <= 2100
    c = Case(cid, tags=dict(kind=kind, elem=elem, n=n, alphabet=len(set(seq)), mix=mix, path=path, trivial=(n == 0),
                            cost=n * (20 if sweep else 3) * 4))
    c.add(C.new_line(kind, elem, path, seq))
    c.add("Q codes")
    extra = []
    C.tree_queries(c, rng, seq, width, family, sweep=sweep)
    if width == 128 and seq:
        # a symbol that differs from a present one only above bit 64
        s0 = rng.choice(seq)
        for q in ["Q rank %d %d" % (s0 + 2 ** 64, rng.randrange(n + 1)), "Q select %d 0" % (s0 + 2 ** 64), "Q rank %d 0" % (s0 + 2 ** 127)]:
            c.add(q)
    c.seq = seq
    return c


def gap_profile_cases(rng, prefix, d, kinds, fam, profiles, elem="u16"):
    """d-adic count profiles whose Huffman tree is complete and has whole LEVELS WITHOUT LEAVES
    (leaf counts n_L per level with sum n_L * d^-L = 1, weight d^(Lmax-L) per leaf at level L): the
    sorted code lengths then jump by more than one level between consecutive symbols"""
    out = []
    for kk, prof in enumerate(profiles):
        lmax = max(prof)
        counts = []
        for lvl in sorted(prof):
            counts += [d ** (lmax - lvl)] * prof[lvl]
        order = list(range(len(counts)))
        rng.shuffle(order)                      # which symbol VALUES are the heavy ones varies
        seq = []
        for pos, cnt in zip(order, counts):
            seq += [pos * 2 + 1] * cnt
        rng.shuffle(seq)
        kind = kinds[kk % len(kinds)]
        c = Case("%s-gap%d" % (prefix, kk), tags=dict(kind=kind, elem=elem, n=len(seq), alphabet=len(counts),
                                                      mix="levels-without-leaves %s" % sorted(prof.items()), cost=len(seq) * 100))
        c.add(C.new_line(kind, elem, rng.choice(["new", "from", "collect"]), seq))
        c.add("Q codes")
        c.add("Q nlevels")
        C.tree_queries(c, rng, seq, WIDTH[elem], fam, sweep=len(seq) <= 2100, nsyms=len(counts))
        c.seq = seq
        c.model = len(seq) <= 6000
        out.append(c)
    return out


GAPS4 = [{1: 3, 3: 16}, {1: 2, 3: 32}, {1: 3, 4: 64}, {1: 3, 3: 12, 4: 16}, {1: 1, 3: 48}, {2: 15, 4: 16}, {1: 3, 3: 15, 5: 16}]
GAPS2 = [{1: 1, 3: 4}, {2: 3, 5: 8}, {1: 1, 3: 3, 5: 4}, {1: 1, 4: 8}, {2: 2, 3: 3, 5: 4}, {1: 1, 2: 1, 5: 8}]


def gen_c02(rng, tier):
    out = []
    k = 0
    for _ in range(sizes(tier, 80, 400)):
        kind = HQ_KINDS[k % 4]
        elem = ELEMS[(k // 4) % 6]
        c = huff_case(rng, "c02-%d" % k, kind, elem, tier, "hq")
        c.model = c.tags["n"] <= 5000
        out.append(c)
        k += 1
    # alphabet sizes not of the form 3k+1 (incomplete 4-ary trees), deep codes
    for a in [2, 3, 5, 6, 8, 9, 11, 12, 14, 20, 33]:
        c = huff_case(rng, "c02-a%d" % a, rng.choice(HQ_KINDS), "u16", tier, "hq", n=rng.choice([200, 700, 1500]), alpha_size=a, mix=rng.choice(["fib", "uniform", "geometric"]))
        out.append(c)
    # degenerate 4-ary profiles: at every level three leaves half as heavy as everything below
    # them: the code of the rarest symbols has one fragment per level (9, 10, ... levels deep)
    for kk, levels in enumerate(sizes(tier, [8, 9], [8, 9, 10, 11])):
        counts = [1, 1, 1, 1]
        tot = 4
        for _ in range(levels):
            a = max(1, tot // 2)
            counts += [a, a, a]
            tot += 3 * a
        seq = []
        for sym, cnt in enumerate(counts):
            seq += [sym * 3 + 1] * cnt
        rng.shuffle(seq)
        kind = HQ_KINDS[kk % 4]
        c = Case("c02-deep%d" % kk, tags=dict(kind=kind, elem="u16", n=len(seq), alphabet=len(counts), mix="deep-%d" % (levels + 1), cost=len(seq) * 300))
        c.add(C.new_line(kind, "u16", "new", seq))
        c.add("Q codes")
        c.add("Q nlevels")
        C.tree_queries(c, rng, seq, 16, "hq", sweep=False, nsyms=len(counts))
        c.seq = seq
        c.model = len(seq) <= 6000
        out.append(c)
    out += gap_profile_cases(rng, "c02", 4, HQ_KINDS, "hq", GAPS4)
    if tier == "thorough":
        # KF-17: a code longer than 32 bits (17 fragments) needs millions of symbols
        import heapq

        def depth4(counts):
            h = [(c, 0) for c in counts]
            while (len(h) - 1) % 3 != 0:
                h.append((0, 0))
            heapq.heapify(h)
            while len(h) > 1:
                items = [heapq.heappop(h) for _ in range(4)]
                heapq.heappush(h, (sum(i[0] for i in items), max(i[1] for i in items) + 1))
            return h[0][1]
        best = None
        for f in [0.44, 0.45, 0.46, 0.48, 0.5]:
            for levels in range(14, 19):
                counts = [1, 1, 1, 1]
                tot = 4
                for _ in range(levels):
                    a = max(1, int(f * tot))
                    counts += [a, a, a]
                    tot += 3 * a
                if depth4(counts) >= 17 and (best is None or sum(counts) < sum(best)):
                    best = counts
        if best is not None and sum(best) < 12000000:
            seq = []
            for sym, cnt in enumerate(best):
                seq += [sym] * cnt
            c = Case("c02-kf17", model=False, tags=dict(kind="hqwt256", elem="u8", n=len(seq), alphabet=len(best), mix="code>32bit", cost=1))
            c.add(C.new_line("hqwt256", "u8", "from", seq))
            c.add("Q len")
            c.add("Q get 0")
            c.add("Q rank %d %d" % (len(best) - 1, len(seq)))
            c.add("Q select 0 0")
            c.seq = seq
            out.append(c)
    for kind in HQ_KINDS:
        c = Case("c02-empty-%s" % kind, tags=dict(kind=kind, n=0, trivial=True))
        c.add("NEW %s u32 %s 0" % (kind, rng.choice(["new", "from", "collect"])))
        for l in ["Q len", "Q isempty", "Q nlevels", "Q get 0", "Q rank 0 0", "Q rank 0 1", "Q select 0 0", "Q select 7 3", "Q rankp 0 0", "Q select 0 %d" % MAXU]:
            c.add(l)
        out.append(c)
    return out


# ------------------------------------------------------------------------------- C03
def gen_c03(rng, tier):
    out = []
    k = 0
    for _ in range(sizes(tier, 50, 250)):
        elem = ELEMS[k % 6]
        c = tree_case(rng, "c03-w%d" % k, "wt", elem, tier, "w")
        c.model = c.tags["n"] <= 4000
        out.append(c)
        k += 1
    for _ in range(sizes(tier, 50, 250)):
        elem = ELEMS[k % 6]
        c = huff_case(rng, "c03-h%d" % k, "hwt", elem, tier, "hw")
        c.model = c.tags["n"] <= 4000
        out.append(c)
        k += 1
    out += gap_profile_cases(rng, "c03", 2, ["hwt"], "hw", GAPS2)
    # plain trees over symbols that need more than 32 / 64 bits (more than 64 levels for u128): every bit of the
    # full-width symbol decides a level, in the partition of the build as well as in the walks
    for elem, pool in [("u64", [2 ** 32, 2 ** 32 + 1, 2 ** 63, 2 ** 64 - 1, 7, 2 ** 40 + 3]),
                       ("u128", [2 ** 64, 2 ** 64 + 5, 2 ** 100, 2 ** 127, 2 ** 128 - 1, 5, 2 ** 64 - 1, 2 ** 65 + 2 ** 3]),
                       ("u128", [2 ** 64 + 1, 1, 2 ** 64 + 2, 2, 3 * 2 ** 64 + 1, 3]),
                       ("usize", [2 ** 63 + 1, 2 ** 33, 1, 0])]:
        for n in [7, rng.choice([120, 300]), 1500]:
            seq = [rng.choice(pool) for _ in range(n)]
            c = Case("c03-wide%d" % k, tags=dict(kind="wt", elem=elem, n=n, maxsym_bits=max(seq).bit_length(), mix="wide", cost=n * 1500))
            k += 1
            c.add(C.new_line("wt", elem, rng.choice(["new", "from", "collect"]), seq))
            C.tree_queries(c, rng, seq, WIDTH[elem], "w", sweep=(n <= 300))
            c.model = n <= 300
            c.seq = seq
            out.append(c)
    for kind in ["wt", "hwt"]:
        c = Case("c03-empty-%s" % kind, tags=dict(kind=kind, n=0, trivial=True))
        c.add("NEW %s u32 %s 0" % (kind, rng.choice(["new", "from", "collect"])))
        for l in ["Q len", "Q isempty", "Q nlevels", "Q get 0", "Q rank 0 0", "Q rank 0 1", "Q select 0 0", "Q select 7 3", "Q select 0 %d" % MAXU]:
            c.add(l)
        out.append(c)
    # one distinct symbol, two symbols
    for kind in ["wt", "hwt"]:
        for vals in [[7] * 5, [0] * 3, [3, 9, 3, 3, 9], [0, 1], [2 ** 40, 5, 2 ** 40]]:
            c = Case("c03-small-%s-%d" % (kind, k), tags=dict(kind=kind, n=len(vals)))
            k += 1
            if kind == "hwt" and max(vals) > 10000:
                continue
            c.add(C.new_line(kind, "u64", "from", vals))
            if kind == "hwt":
                c.add("Q codes")
            C.tree_queries(c, rng, vals, 64, "w" if kind == "wt" else "hw", sweep=True)
            out.append(c)
    return out


# ------------------------------------------------------------------------------- C06
BIT_LENS = [0, 1, 2, 63, 64, 65, 127, 128, 129, 511, 512, 513, 1023, 1024, 1025, 2047, 2048, 4095, 4096, 4097, 8191, 8192, 8193]


def bin_queries(c, rng, bits, kind, sweep=True):
    n = len(bits)
    ones = sum(bits)
    if kind == "rsw":
        c.add("Q len")
    c.add("Q nones")
    c.add("Q nzeros")
    c.add("Q tnzeros")
    if sweep:
        c.add("Q getall")
        c.add("Q rank1all")
        c.add("Q rank0all")
        c.add("Q select1all %d" % (ones + 1))
        c.add("Q select0all %d" % (n - ones + 1))
    else:
        for _ in range(80):
            i = rng.choice([0, n, n + 1, rng.randrange(n + 1)])
            c.add("Q rank1 %d" % i)
            c.add("Q rank0 %d" % i)
            c.add("Q get %d" % i)
            c.add("Q select1 %d" % rng.choice([0, ones, max(ones - 1, 0), rng.randrange(ones + 1)]))
            c.add("Q select0 %d" % rng.choice([0, n - ones, max(n - ones - 1, 0), rng.randrange(n - ones + 1)]))
    for q in ["rank1", "rank0", "select1", "select0", "get"]:
        c.add("Q %s %d" % (q, MAXU))
    wa = C.wrap_args(rng, n)
    for a in rng.sample(wa, min(len(wa), 6)):
        for q in ["rank1", "rank0", "select1", "select0", "get"]:
            c.add("Q %s %d" % (q, a))


def gen_c06(rng, tier):
    out = []
    k = 0
    lens = BIT_LENS + sizes(tier, [32767, 32769], [16383, 16385, 32767, 32768, 32769, 65536, 100000, 262145])
    for n in lens:
        for kind in ["rsn", "rsw"]:
            reps = 2 if n < 5000 else 1
            for _ in range(reps):
                bits, mix = C.gen_bits(rng, n)
                sweep = n <= 8193
                c = Case("c06-%d" % k, tags=dict(kind=kind, n=n, mix=mix, trivial=(n == 0), cost=n * (30 if sweep else 2)))
                c.add(C.bits_line(kind, rng.choice(["new", "from"]), bits))
                bin_queries(c, rng, bits, kind, sweep)
                c.model = n <= 8193
                out.append(c)
                k += 1
    # counts of ones / zeros crossing the hint periods (1024 narrow, 8192 wide)
    for kind, per in [("rsn", 1024), ("rsw", 8192)]:
        for tgt in [per - 1, per, per + 1, 2 * per, 2 * per + 1]:
            for val in [1, 0]:
                n = tgt + rng.randrange(0, 70)
                bits = [val] * tgt + [1 - val] * (n - tgt)
                rng.shuffle(bits) if rng.random() < 0.5 else None
                c = Case("c06-h%d" % k, tags=dict(kind=kind, n=n, mix="hint-%d-%d" % (tgt, val), cost=n * 3))
                c.add(C.bits_line(kind, "new", bits))
                bin_queries(c, rng, bits, kind, sweep=(n <= 9000))
                c.model = n <= 9000
                out.append(c)
                k += 1
    for kind in ["rsn", "rsw"]:
        c = Case("c06-default-%s" % kind, tags=dict(kind=kind, n=0, path="default", trivial=True))
        c.add("NEW %s - default 0 -" % kind)
        bin_queries(c, rng, [], kind)
        out.append(c)
    return out


# ------------------------------------------------------------------------------- C07
def da_bits(rng, groups):
    """bit vector made of regions: ('d', ones, gap) dense, ('s', ones, gap) sparse ..."""
    bits = []
    for (ones, gap) in groups:
        for _ in range(ones):
            bits += [0] * rng.randrange(gap // 2, gap + 1) + [1]
    return bits


def gen_c07(rng, tier):
    out = []
    k = 0
    shapes = [
        [(10, 3)], [(1024, 1)], [(1025, 1)], [(1023, 2)], [(2048, 3)], [(3000, 10)],
        [(1024, 70)],                      # sparse group (span > 65536)
        [(1024, 64)],                      # around the threshold
        [(1024, 70), (1024, 2)],           # sparse then dense
        [(1024, 2), (1024, 70), (500, 3)],  # dense, sparse, partial dense
        [(1024, 70), (1024, 70), (1024, 1), (40, 100)],
        [(1024, 1), (1024, 1), (1024, 66), (1024, 1)],
        [(100, 700)], [(1500, 90)],
    ]
    if tier == "thorough":
        shapes += [[(1024, rng.choice([1, 2, 60, 64, 66, 80])) for _ in range(6)] for _ in range(8)]
    for sh in shapes:
        for invert in [False, True]:
            bits = da_bits(rng, sh) + [0] * rng.randrange(0, 100)
            if invert:
                bits = [1 - b for b in bits]
            n = len(bits)
            ones = sum(bits)
            kind = "darray1" if (invert or rng.random() < 0.7) else "darray0"
            path = rng.choice(["bits", "new", "pos"]) if not invert else rng.choice(["bits", "new"])
            c = Case("c07-%d" % k, tags=dict(kind=kind, n=n, ones=ones, shape=str(sh)[:60], invert=invert, path=path, cost=n // 4))
            if path == "pos":
                pos = [i for i, b in enumerate(bits) if b]
                c.add("NEW %s - pos %d %s" % (kind, len(pos), " ".join(map(str, pos))))
                n = (pos[-1] + 1) if pos else 0
            else:
                c.add(C.bits_line(kind, path, bits))
            for q in ["len", "isempty", "countones", "countzeros"]:
                c.add("Q " + q)
            c.add("Q select1all %d" % (ones + 1))
            if kind == "darray1":
                c.add("Q select0all %d" % (n - ones + 1))
            else:
                c.add("Q select0 0")
            c.add("Q select1 %d" % MAXU)
            wa = C.wrap_args(rng, n)
            for a in rng.sample(wa, min(len(wa), 5)):
                c.add("Q select1 %d" % a)
                c.add("Q get %d" % a)
            if n <= 200000:
                c.add("Q ones")
                c.add("Q zeroswp %d" % rng.randrange(n + 2))
            for _ in range(20):
                c.add("Q get %d" % rng.randrange(n + 2))
            c.model = n <= 120000
            out.append(c)
            k += 1
    # a (partial or full) group whose span last - first is exactly 65535 / 65536 / 65537
    for size in [2, 33, 65, 97, 1024, 1025]:
        for span in [65535, 65536, 65537]:
            for invert in [False, True]:
                first = rng.choice([0, 7, 64, 700])
                inner = sorted(rng.sample(range(first + 1, first + span), min(size, 1024) - 2)) if size > 2 else []
                pos = [first] + inner + [first + span]
                if size == 1025:
                    pos = pos + [first + span + 5]
                n = pos[-1] + 1 + rng.randrange(0, 70)
                bits = [0] * n
                for q in pos:
                    bits[q] = 1
                if invert:
                    bits = [1 - b for b in bits]
                kind = "darray1"
                ones = sum(bits)
                c = Case("c07-thr%d" % k, tags=dict(kind=kind, n=n, ones=ones, shape="span=%d size=%d" % (span, size), invert=invert, cost=n // 4))
                k += 1
                c.add(C.bits_line(kind, rng.choice(["bits", "new"]), bits))
                c.add("Q select1all %d" % (ones + 1))
                c.add("Q select0all %d" % (n - ones + 1))
                c.model = (size <= 65) and not invert
                out.append(c)
    for n in [0, 1, 5, 64, 65, 600]:
        bits, mix = C.gen_bits(rng, n)
        for kind in ["darray0", "darray1"]:
            c = Case("c07-s%d" % k, tags=dict(kind=kind, n=n, mix=mix, trivial=(n == 0)))
            c.add(C.bits_line(kind, "bits", bits))
            c.add("Q len")
            c.add("Q countones")
            c.add("Q select1all %d" % (sum(bits) + 1))
            if kind == "darray1":
                c.add("Q select0all %d" % (n - sum(bits) + 1))
            c.add("Q getall")
            c.add("Q ones")
            c.add("Q zeros")
            out.append(c)
            k += 1
    for kind in ["darray0", "darray1"]:
        c = Case("c07-default-%s" % kind, tags=dict(kind=kind, n=0, path="default", trivial=True))
        c.add("NEW %s - default 0 -" % kind)
        c.add("Q len")
        c.add("Q select1 0")
        c.add("Q select0 0")
        out.append(c)
    # vectors longer than 2^31 / 2^32 bits, given by their positions only (about 0.5 GiB in the implementation; the
    # position list itself is the oracle): dense and sparse groups below, across and beyond the 32-bit boundary
    for j, edge in enumerate(sizes(tier, [2 ** 32], [2 ** 31, 2 ** 32, 2 ** 32 + 2 ** 31])):
        pos = list(range(5, 5 + 1024))
        p = edge - rng.choice([50000, 30000, 80000])
        for gap, cnt in [(100, 1024), (2, 1024), (70, 1024), (1, 1024), (1000, 100)]:
            for _ in range(cnt):
                p += rng.randrange(gap // 2 + 1, gap + 2) if gap > 1 else 1
                pos.append(p)
        c = Case("c07-big%d" % j, model=False, tags=dict(kind="darray0", n=pos[-1] + 1, ones=len(pos), shape="beyond 2^%d" % (edge.bit_length() - 1), path="pos"))
        c.add("FN dabig 0 %s" % " ".join(map(str, pos)))
        out.append(c)
    # documented panic: positions not strictly increasing
    c = Case("c07-nonincr", tags=dict(kind="darray0", path="pos", trivial=True))
    c.add("NEW darray0 - pos 3 5 5 9")
    out.append(c)
    return out


# ------------------------------------------------------------------------------- C08
def gen_c08(rng, tier):
    out = []
    for k in range(sizes(tier, 120, 800)):
        c = Case("c08-%d" % k, tags=dict(kind="bvm"))
        start = rng.choice(["new", "default", "bits", "pos", "withzeros"])
        cur = 0
        if start in ("new", "default"):
            c.add("NEW bvm - %s 0 -" % start)
        elif start == "bits":
            bits, _ = C.gen_bits(rng, rng.choice([1, 63, 64, 65, 500, 512, 513, 700]))
            c.add(C.bits_line("bvm", "bits", bits))
            cur = len(bits)
        elif start == "pos":
            pos = sorted(rng.sample(range(0, 1200), rng.randrange(0, 30)))
            c.add("NEW bvm - pos %d %s" % (len(pos), " ".join(map(str, pos))))
            cur = (pos[-1] + 1) if pos else 0
        else:
            z = rng.choice([0, 1, 64, 511, 512, 513, 1000])
            c.add("NEW bvm - withzeros %d" % z)
            cur = z
        nops = rng.randrange(1, sizes(tier, 40, 120))
        hist = []
        for _ in range(nops):
            op = rng.choice(["push", "push", "append", "zeros", "set", "setbits", "extbits", "extpos", "bad"])
            if op == "push":
                c.add("OP push %d" % rng.randrange(2)); cur += 1
            elif op == "append":
                ln = rng.choice([0, 1, 7, 31, 32, 33, 63, 64])
                c.add("OP append %d %d" % (rng.getrandbits(ln) if ln else 0, ln)); cur += ln
            elif op == "zeros":
                z = rng.choice([0, 1, 5, 63, 64, 65, 300, 512, 600]); c.add("OP zeros %d" % z); cur += z
            elif op == "set" and cur:
                c.add("OP set %d %d" % (rng.randrange(cur), rng.randrange(2)))
            elif op == "setbits" and cur:
                ln = min(cur, rng.choice([1, 2, 7, 33, 63, 64]))
                i = rng.choice([0, cur - ln, rng.randrange(cur - ln + 1)])
                c.add("OP setbits %d %d %d" % (i, ln, rng.getrandbits(ln)))
            elif op == "extbits":
                b, _ = C.gen_bits(rng, rng.choice([0, 1, 3, 64, 70])); c.add("OP extbits %s" % ("".join(map(str, b)) or "-")); cur += len(b)
            elif op == "extpos":
                ps = [rng.randrange(0, cur + 200) for _ in range(rng.randrange(1, 4))]
                c.add("OP extpos %s" % " ".join(map(str, ps))); cur = max([cur] + [p + 1 for p in ps])
            elif op == "bad" and rng.random() < 0.3:
                # documented panics (precondition violated); the value must stay usable
                c.add(rng.choice(["OP set %d 1" % (cur + rng.randrange(3)), "OP setbits %d 3 1" % max(cur - 2, 0), "OP append 8 3", "OP setbits 0 2 7" if cur >= 2 else "OP set %d 0" % cur]))
            hist.append(op)
            if rng.random() < 0.25:
                c.add("Q len"); c.add("Q countones"); c.add("Q countzeros")
        c.tags.update(n=cur, nops=nops, start=start, cost=cur * 20)
        obs = ["Q len", "Q isempty", "Q countones", "Q countzeros", "Q bits", "Q getall", "Q ones", "Q zeros", "Q getwordall",
               "Q getword %d" % MAXU, "Q get %d" % MAXU, "Q getbits %d 1" % MAXU, "Q getbits 0 65", "Q getbits 0 0"]
        for ln in sorted(set([1, 64, rng.randrange(1, 65), rng.randrange(1, 65)])):
            obs.append("Q getbitsall %d" % ln)
        for p in [0, cur, cur + 1, cur + 700, rng.randrange(cur + 1)]:
            obs.append("Q oneswp %d" % p)
            obs.append("Q zeroswp %d" % p)
        for o in obs:
            c.add(o)
        c.add("ITER iter " + "n" * min(cur + 2, 80) + "l")
        # the bit iterators through their adapters too: nth (k, j, K = usize::MAX), size_hint (h), len (l), past the end
        for src in ("iter", "into"):
            c.add("ITER %s %s" % (src, "".join(rng.choice("nnkhl") for _ in range(8)) + "hl" + rng.choice(["K", "j", "k"]) + "hlnhl"))
            c.add("ITER %s %s" % (src, "j" * (cur // 8 + 2) + "hlkhl"))
        # conversions, clone, equality
        c.add("STORE m")
        c.add("OP toimm")
        for o in obs:
            c.add(o)
        c.add("ITER iter " + "".join(rng.choice("nkjhl") for _ in range(10)) + "Khl")
        c.add("OP tomut")
        c.add("EQ m")
        c.add("CLONE")
        c.add("EQ m")
        out.append(c)
    # Clone::clone_from over a vector with other contents: afterwards the same vector as the source, counters
    # included, and still a working mutable vector
    for k in range(sizes(tier, 20, 100)):
        bits, mix = C.gen_bits(rng, rng.choice([1, 64, 65, 511, 512, 513, 900]))
        bits2, _ = C.gen_bits(rng, rng.choice([0, 1, 64, 70, 512, 600, 1500]))
        kind = rng.choice(["bvm", "bvm", "bv"])
        c = Case("c08-cf%d" % k, model=False, tags=dict(kind=kind, n=len(bits), mix=mix, start="clone_from"))
        c.add(C.bits_line(kind, "bits", bits))
        c.add("STORE a")
        if rng.random() < 0.3:
            c.add("NEW %s - default 0 -" % kind)
        else:
            c.add(C.bits_line(kind, "bits", bits2))
        c.add("CLONEFROM a")
        c.add("EQ a")
        for q in ["Q len", "Q countones", "Q countzeros", "Q bits", "Q ones", "Q getwordall"]:
            c.add(q)
        if kind == "bvm":
            c.add("OP push 1"); c.add("OP append 5 3"); c.add("OP set 0 1")
            for q in ["Q len", "Q countones", "Q countzeros", "Q bits"]:
                c.add(q)
            c.add("EQ a")
        out.append(c)
    # two vectors with the same bits built differently compare equal
    for k in range(sizes(tier, 30, 150)):
        bits, mix = C.gen_bits(rng, rng.choice([1, 64, 65, 511, 512, 513, 900]))
        c = Case("c08-eq%d" % k, tags=dict(kind="bv", n=len(bits), mix=mix))
        c.add(C.bits_line("bvm", "bits", bits))
        c.add("STORE a")
        # same content through pushes / positions / zeros+set_bits
        c.add("NEW bvm - new 0 -")
        how = rng.choice(["push", "zeros+set", "append"])
        if how == "push":
            for b in bits:
                c.add("OP push %d" % b)
        elif how == "append":
            for i in range(0, len(bits), 60):
                ch = bits[i:i + 60]
                c.add("OP append %d %d" % (sum(b << j for j, b in enumerate(ch)), len(ch)))
        else:
            c.add("OP zeros %d" % len(bits))
            c.add("OP setbits 0 %d %d" % (min(64, len(bits)), (1 << min(64, len(bits))) - 1))   # overwritten below
            for i in range(0, len(bits), 64):
                ch = bits[i:i + 64]
                c.add("OP setbits %d %d %d" % (i, len(ch), sum(b << j for j, b in enumerate(ch))))
        c.add("EQ a")
        c.add("Q countones")
        out.append(c)
    return out


# ------------------------------------------------------------------------------- C09
def gen_c09(rng, tier):
    out = []
    k = 0
    lens = [2047, 2048, 2049, 4095, 4096, 4097, 6143, 6144, 6145, 8192, 10001] + sizes(tier, [12289], [16384, 20481, 40000, 65537, 100003])
    for n in lens:
        for fam in ["q", "hq"]:
            kinds = QWT_KINDS if fam == "q" else HQ_KINDS
            for kind in (kinds if n < 7000 else [rng.choice(kinds[2:])]):
                elem = rng.choice(["u8", "u16", "u32", "u64"])
                if fam == "q":
                    mx = rng.choice([20, 63, 64, 255, 1000 if WIDTH[elem] >= 16 else 255, 70000 if WIDTH[elem] >= 32 else 255])
                    c = tree_case(rng, "c09-%d" % k, kind, elem, tier, "q", n=n, maxsym=min(mx, 2 ** WIDTH[elem] - 1), sweep=False)
                else:
                    c = huff_case(rng, "c09-%d" % k, kind, elem, tier, "hq", n=n, sweep=False, mix=rng.choice(["fib", "geometric", "uniform", "runs"]))
                syms = sorted(set(c.seq))
                pick = rng.sample(syms, min(len(syms), 5)) + [max(syms) + 1, 0]
                for sym in pick:
                    if sym < 2 ** WIDTH[elem]:
                        c.add("Q rankpall %d" % sym)
                        c.add("Q rankall %d" % sym)
                        c.add("Q rankp %d %d" % (sym, MAXU))
                # the same on a copy obtained by serialization round trip / clone (a tree that was loaded, not built)
                if n <= 7000:
                    c.add(rng.choice(["RT", "CLONE"]))
                    for sym in pick[:3]:
                        if sym < 2 ** WIDTH[elem]:
                            for i in sorted(set([0, n, n // 2, rng.randrange(n + 1)])):
                                c.add("Q rankp %d %d" % (sym, i))
                                c.add("Q rank %d %d" % (sym, i))
                c.model = n <= 6145
                c.tags["cost"] = n * 40
                out.append(c)
                k += 1
    # empty trees by every route (new / from / collect of nothing, Default::default()), every alias with and without
    # prefetch support: rank_prefetch answers as rank does (None everywhere), unchecked queries are not asked
    for kind in QWT_KINDS + HQ_KINDS:
        for path in ["new", "from", "collect", "default"]:
            c = Case("c09-empty-%s-%s" % (kind, path), tags=dict(kind=kind, n=0, trivial=True, path=path))
            c.add("NEW %s u16 %s 0" % (kind, path))
            if kind.startswith("hq"):
                c.add("Q codes")
            for sym, i in [(0, 0), (3, 1), (0, 1), (65535, 0), (1, MAXU)]:
                c.add("Q rankp %d %d" % (sym, i))
                c.add("Q rank %d %d" % (sym, i))
            c.add(rng.choice(["RT", "CLONE"]))
            c.add("Q rankp 0 0"); c.add("Q rank 0 0")
            out.append(c)
    return out


def post_c09(prop, cases, outs, profiles):
    """rank_prefetch must equal rank on every (symbol, position), in every profile, and the
    builds with and without the prefetch feature must print identical lines"""
    import check as K
    fs = []
    idx = 0
    for c in cases:
        idx += 1
        prev = None
        for kk, l in enumerate(c.lines):
            for prof in profiles:
                a = outs[prof][idx]
                if l.startswith("Q rankall ") and kk > 0 and c.lines[kk - 1] == l.replace("rankall", "rankpall"):
                    b = outs[prof][idx - 1]
                    if a != b:
                        j, x, y = K.first_diff(a, b, lambda u, v: u == v)
                        fs.append(K.Finding("violation", prop, c, kk, "Q rankp %s %d" % (l.split()[2], j), prof, x, y, "rank_prefetch differs from rank"))
            if "rel" in outs and "relnopf" in outs and outs["rel"][idx] != outs["relnopf"][idx] and not l.startswith("Q codes") and not l.startswith("SPACE") and not l.startswith("SER"):
                fs.append(K.Finding("violation", prop, c, kk, l, "relnopf", outs["rel"][idx][:60], outs["relnopf"][idx][:60], "prefetch feature on/off builds disagree"))
            idx += 1
    return fs


# ------------------------------------------------------------------------------- C10
def gen_c10(rng, tier):
    out = []
    k = 0
    for _ in range(sizes(tier, 60, 300)):
        fam = rng.choice(["q", "hq", "w", "hw"])
        elem = rng.choice(ELEMS)
        if fam == "q":
            c = tree_case(rng, "c10-%d" % k, rng.choice(QWT_KINDS), elem, tier, "q", sweep=False, n=rng.choice([1, 5, 300, 512, 1024, 2048, 2049, 4096, 4097]))
        elif fam == "w":
            c = tree_case(rng, "c10-%d" % k, "wt", elem, tier, "w", sweep=False, n=rng.choice([1, 5, 300, 512, 1024, 2048, 2049, 4096, 4097]))
        else:
            c = huff_case(rng, "c10-%d" % k, rng.choice(HQ_KINDS) if fam == "hq" else "hwt", elem, tier, fam, sweep=False, n=rng.choice([1, 5, 300, 512, 1024, 2048, 2049, 4096, 4097]))
        seq = c.seq
        n = len(seq)
        keep = [c.lines[0]] + ([c.lines[1]] if c.lines[1] == "Q codes" else [])
        c.lines = keep
        present = sorted(set(seq))
        # extreme positions: rank at 0 and at len (level lengths that are multiples of the block sizes), the first and the
        # last symbol, the first and the last occurrence
        for s in sorted(set([present[0], present[-1], seq[0], seq[-1]])):
            for i in (0, n, n - 1):
                c.add("Q urank %d %d" % (s, i))
                c.add("Q rank %d %d" % (s, i))
            for kq in sorted(set([0, seq.count(s) - 1])):
                c.add("Q uselect %d %d" % (s, kq))
                c.add("Q select %d %d" % (s, kq))
        c.add("Q uget 0"); c.add("Q uget %d" % (n - 1))
        for _ in range(40):
            i = rng.randrange(n)
            c.add("Q uget %d" % i)
            c.add("Q get %d" % i)
            s = rng.choice(present) if fam in ("hq", "hw") or rng.random() < 0.7 else rng.randrange(0, max(present) + 1)
            i = rng.randrange(n + 1)
            c.add("Q urank %d %d" % (s, i))
            c.add("Q rank %d %d" % (s, i))
            if fam in ("q", "hq"):
                c.add("Q urankp %d %d" % (s, i))
            occ = seq.count(s)
            if occ:
                kq = rng.choice([0, occ - 1, rng.randrange(occ)])
                c.add("Q uselect %d %d" % (s, kq))
                c.add("Q select %d %d" % (s, kq))
        c.model = True
        out.append(c)
        k += 1
    # trees over symbols wider than 32 / 64 bits (more than 16 / 32 quad levels, more than 32 / 64 binary levels):
    # the unchecked walks against the checked ones
    for kind, fam in [(kq, "q") for kq in QWT_KINDS] + [("wt", "w")]:
        for elem, pool in [("u64", [2 ** 32, 2 ** 32 + 1, 2 ** 63, 2 ** 64 - 1, 7, 2 ** 40 + 3]),
                           ("u128", [2 ** 64, 2 ** 64 + 5, 2 ** 100, 2 ** 127, 2 ** 128 - 1, 5, 2 ** 64 - 1, 2 ** 65 + 2 ** 3])]:
            n = rng.choice([7, 120, 700])
            seq = [rng.choice(pool) for _ in range(n)]
            c = Case("c10-wide%d" % k, tags=dict(kind=kind, elem=elem, n=n, maxsym_bits=max(seq).bit_length(), mix="wide", cost=n * 300))
            k += 1
            c.add(C.new_line(kind, elem, rng.choice(["new", "from", "collect"]), seq))
            for sy in sorted(set(seq)):
                occ = seq.count(sy)
                for kq in sorted(set([0, occ - 1, rng.randrange(occ)])):
                    c.add("Q uselect %d %d" % (sy, kq))
                    c.add("Q select %d %d" % (sy, kq))
                for i in sorted(set([0, n, rng.randrange(n + 1)])):
                    c.add("Q urank %d %d" % (sy, i))
                    c.add("Q rank %d %d" % (sy, i))
                    if fam == "q":
                        c.add("Q urankp %d %d" % (sy, i))
            for i in sorted(set([0, n - 1, rng.randrange(n)])):
                c.add("Q uget %d" % i)
                c.add("Q get %d" % i)
            c.seq = seq
            c.model = n <= 300
            out.append(c)
    # quad / bit structures
    for _ in range(sizes(tier, 40, 200)):
        n = rng.choice([1, 2, 255, 256, 257, 511, 513, 2048, 2049, 4100, 9000])
        kind = rng.choice(["rsq256", "rsq512"])
        s, mix = C.gen_quad_seq(rng, n)
        c = Case("c10-r%d" % k, tags=dict(kind=kind, n=n, mix=mix, cost=n * 4))
        c.add(C.new_line(kind, "u64", "new", s))
        for _ in range(40):
            sym = rng.randrange(4)
            c.add("Q uget %d" % rng.randrange(n))
            c.add("Q urank %d %d" % (sym, rng.randrange(n + 1)))
            c.add("Q uoccs %d" % sym)
            c.add("Q uoccssmaller %d" % sym)
            occ = s.count(sym)
            if occ:
                c.add("Q uselect %d %d" % (sym, rng.choice([0, occ - 1, rng.randrange(occ)])))
        out.append(c)
        k += 1
    for _ in range(sizes(tier, 40, 200)):
        n = rng.choice([1, 2, 63, 64, 65, 511, 512, 513, 4096, 4097, 9000])
        kind = rng.choice(["rsn", "rsw", "darray1", "bv", "bvm"])
        bits, mix = C.gen_bits(rng, n)
        c = Case("c10-b%d" % k, tags=dict(kind=kind, n=n, mix=mix, cost=n * 4))
        c.add(C.bits_line(kind, "bits" if kind in ("bv", "bvm", "darray1") else "new", bits))
        ones = sum(bits)
        # the extreme arguments the checked methods accept: rank at 0, at len (also when len is a multiple of the word /
        # line / block sizes), at the block boundaries; the first and the last occurrence
        if kind in ("rsn", "rsw"):
            for i in sorted(set([0, n, n - 1, (n // 512) * 512, max((n // 512) * 512 - 1, 0), (n // 64) * 64, min(512, n), min(4096, n)])):
                c.add("Q urank1 %d" % i)
                c.add("Q rank1 %d" % i)
                if kind == "rsw":
                    c.add("Q urank0 %d" % i)
                    c.add("Q rank0 %d" % i)
        if kind in ("rsn", "rsw", "darray1"):
            for kq in sorted(set([0, ones - 1])) if ones else []:
                c.add("Q uselect1 %d" % kq)
            for kq in sorted(set([0, n - ones - 1])) if n - ones else []:
                c.add("Q uselect0 %d" % kq)
        for _ in range(40):
            c.add("Q uget %d" % rng.randrange(n))
            if kind in ("rsn", "rsw"):
                c.add("Q urank1 %d" % rng.randrange(n + 1))
                if kind == "rsw":
                    c.add("Q urank0 %d" % rng.randrange(n + 1))
            if kind in ("rsn", "rsw", "darray1"):
                if ones:
                    c.add("Q uselect1 %d" % rng.randrange(ones))
                if n - ones:
                    c.add("Q uselect0 %d" % rng.randrange(n - ones))
            if kind in ("bv", "bvm"):
                ln = rng.randrange(1, 65)
                if n > ln + (1 if kind == "bvm" else 0):
                    c.add("Q ugetbits %d %d" % (rng.randrange(n - ln - (1 if kind == "bvm" else 0) + 1), ln))
        out.append(c)
        k += 1
    # DArray: sparse groups (1024 ones, resp. zeros, spread over 65536 bits or more) next to dense ones: the unchecked
    # selects against the checked ones at every offset class inside a group (i % 1024 below and above 32, multiples of 32)
    for kind in ["darray1", "darray0"]:
        for gap in sizes(tier, [70, 9], [70, 9, 200, 64]):
            ones_n = rng.choice([1500, 2100, 3100])
            pos, p = [], 0
            for j in range(ones_n):
                p += (gap + rng.randrange(0, 5)) if (j // 1024) % 2 == 0 else rng.randrange(1, 4)
                pos.append(p)
            n = pos[-1] + 1
            c = Case("c10-da%d" % k, tags=dict(kind=kind, n=n, mix="sparse+dense gap%d" % gap, cost=n // 8))
            k += 1
            c.add("NEW %s - pos %d %s" % (kind, len(pos), " ".join(map(str, pos))))
            idxs = sorted(set([0, 1, 31, 32, 33, 63, 64, 100, 1000, 1023, 1024, 1025, 1055, 1056, 1500 - 1, ones_n - 1] + [rng.randrange(ones_n) for _ in range(30)]))
            for i in idxs:
                if i < ones_n:
                    c.add("Q uselect1 %d" % i)
                    c.add("Q select1 %d" % i)
            if kind == "darray1":          # darray1 = DArray<true>: with select0 support
                zeros_n = n - ones_n
                for i in sorted(set([0, 31, 32, 33, 1023, 1024, 1056, zeros_n - 1] + [rng.randrange(zeros_n) for _ in range(20)])):
                    if 0 <= i < zeros_n:
                        c.add("Q uselect0 %d" % i)
                        c.add("Q select0 %d" % i)
            c.model = n <= 60000
            out.append(c)
    return out


# ------------------------------------------------------------------------------- C11
def any_structure_case(rng, cid, tier, small=True):
    """a case that builds one structure of a random kind (used by C04, C11, C16, C18, C19)"""
    fam = rng.choice(["q", "hq", "w", "hw", "rsq", "rsn", "rsw", "da", "bv", "bvm", "qv"])
    n = rng.choice([0, 1, 2, 5, 63, 64, 65, 255, 256, 257, 513, 1000, 2049] + ([] if small else [4097, 8193, 20000]))
    if fam in ("q", "w"):
        kind = rng.choice(QWT_KINDS) if fam == "q" else "wt"
        c = tree_case(rng, cid, kind, rng.choice(ELEMS), tier, fam, n=n, sweep=False)
        c.fam = fam
        return c
    if fam in ("hq", "hw"):
        kind = rng.choice(HQ_KINDS) if fam == "hq" else "hwt"
        c = huff_case(rng, cid, kind, rng.choice(ELEMS), tier, fam, n=n, sweep=False)
        c.fam = fam
        return c
    c = Case(cid, tags=dict(n=n))
    c.fam = fam
    if fam == "rsq":
        kind = rng.choice(["rsq256", "rsq512"])
        s, mix = C.gen_quad_seq(rng, n)
        c.add(C.new_line(kind, "u64", rng.choice(["new", "from", "collect"]), s))
        c.seq = s
        for sym in range(5):
            c.add("Q rank %d %d" % (sym, rng.randrange(n + 2)))
            c.add("Q select %d %d" % (sym, rng.randrange(n + 2)))
            c.add("Q occs %d" % sym)
        c.add("Q get %d" % rng.randrange(n + 2))
    elif fam == "qv":
        kind = "qv"
        s, mix = C.gen_quad_seq(rng, n)
        c.add(C.new_line("qv", rng.choice(QV_ELEMS), rng.choice(["collect", "builder", "extend"]), s))
        c.seq = s
        c.add("Q len")
        c.add("Q get %d" % rng.randrange(n + 2))
    else:
        bits, mix = C.gen_bits(rng, n)
        kind = {"rsn": "rsn", "rsw": "rsw", "da": rng.choice(["darray0", "darray1"]), "bv": "bv", "bvm": "bvm"}[fam]
        path = "bits" if kind in ("bv", "bvm") or kind.startswith("darray") else rng.choice(["new", "from"])
        c.add(C.bits_line(kind, path, bits))
        c.seq = bits
        ones = sum(bits)
        if kind in ("rsn", "rsw"):
            for _ in range(4):
                c.add("Q rank1 %d" % rng.randrange(n + 2))
                c.add("Q select1 %d" % rng.randrange(ones + 2))
                c.add("Q select0 %d" % rng.randrange(n - ones + 2))
        elif kind.startswith("darray"):
            for _ in range(4):
                c.add("Q select1 %d" % rng.randrange(ones + 2))
                if kind == "darray1":
                    c.add("Q select0 %d" % rng.randrange(n - ones + 2))
        else:
            c.add("Q len")
            c.add("Q countones")
            c.add("Q get %d" % rng.randrange(n + 2))
            c.add("Q getbits %d %d" % (rng.randrange(n + 2), rng.randrange(0, 66)))
    c.tags.update(kind=kind, mix=mix, trivial=(n == 0))
    return c


def gen_c11(rng, tier):
    out = []
    for k in range(sizes(tier, 110, 500)):
        c = any_structure_case(rng, "c11-%d" % k, tier)
        queries = [l for l in c.lines if l.startswith("Q ") and l != "Q codes"]
        c.add("SER")
        c.add("RT")          # replaces the value by deserialize(serialize(value)); prints eq + byte identity
        for q in queries:    # the deserialized value answers identically (compared with spec and model again)
            c.add(q)
        c.add("SER")
        c.model = c.tags.get("n", 0) <= 1100
        out.append(c)
    # DArray with sparse groups (1024 ones, or zeros, over 65536 positions or more): full ones, a partial sparse last
    # group, fewer than 1024 ones far apart, a dense group after a sparse one
    kk = 0
    for kind in ["darray0", "darray1"]:
        for shape in sizes(tier, [[(1024, 130), (700, 200)], [(300, 500)], [(1024, 2), (1024, 140), (50, 3)]],
                           [[(1024, 130), (700, 200)], [(300, 500)], [(1024, 2), (1024, 140), (50, 3)], [(2048, 130)], [(5, 30000)], [(1024, 130), (1, 1)]]):
            for invert in ([False, True] if kind == "darray1" else [False]):
                bits = da_bits(rng, shape)
                if invert:
                    bits = [1 - b for b in bits]
                ones = sum(bits)
                c = Case("c11-da%d" % kk, model=False, tags=dict(kind=kind, n=len(bits), mix="sparse groups%s" % (" (zeros)" if invert else ""), cost=len(bits) // 4))
                kk += 1
                c.add(C.bits_line(kind, rng.choice(["bits", "new"]), bits))
                qs = ["Q len", "Q countones", "Q select1all %d" % (ones + 1)] + (["Q select0all %d" % (len(bits) - ones + 1)] if kind == "darray1" else [])
                for q in qs:
                    c.add(q)
                c.add("SER"); c.add("RT")
                for q in qs:
                    c.add(q)
                c.add("SER")
                out.append(c)
    return out + gen_c11_empties(rng) + gen_c11_deep(rng, tier)


def deep_binary_profile(n_merges):
    """symbol counts whose binary Huffman tree is deep but NOT degenerate (leaf t weighs about as much
    as the subtree merged three steps earlier: two long branches side by side), so that long codes
    with ones among their leading bits exist: 48 merges -> 25 levels, 3.5M symbols"""
    merged, freqs = [2, 4], [1, 1, 2, 2]
    for t in range(2, n_merges):
        leaf = max(freqs[-1], merged[t - 3] if t >= 3 else 0) + 1
        freqs.append(leaf)
        merged.append(merged[t - 2] + leaf)
    return freqs


def gen_c11_deep(rng, tier):
    """code tables with long codes through serialization: every bit of a 25-bit code must survive"""
    out = []
    for k, (kind, merges) in enumerate(sizes(tier, [("hwt", 48), ("hqwt256", 40)], [("hwt", 48), ("hqwt256", 48), ("hqwt512pfs", 44), ("hwt", 36)])):
        freqs = deep_binary_profile(merges)
        seq = []
        for sym, f in enumerate(freqs):
            seq += [sym] * f
        rng.shuffle(seq)
        n = len(seq)
        c = Case("c11-deep%d" % k, tags=dict(kind=kind, elem="u8", n=n, alphabet=len(freqs), mix="deep non-degenerate", path="new", cost=n // 20))
        c.fam = "hw" if kind == "hwt" else "hq"
        c.seq = seq
        c.add(C.new_line(kind, "u8", "new", seq))
        c.add("Q nlevels")
        c.add("RT")
        for sym in range(len(freqs)):
            c.add("Q rank %d %d" % (sym, rng.choice([n, n // 2, n // 3])))
            c.add("Q select %d %d" % (sym, rng.choice([0, 0, 1])))
        for _ in range(20):
            c.add("Q get %d" % rng.randrange(n))
        c.add("RT")
        c.model = False
        out.append(c)
    return out


def gen_c11_empties(rng):
    out = []
    k = 0
    for kind in QWT_KINDS + HQ_KINDS + ["wt", "hwt"]:
        for path in ["new", "default"]:
            c = Case("c11-empty%d" % k, tags=dict(kind=kind, n=0, path=path, trivial=True))
            k += 1
            c.add("NEW %s %s %s 0" % (kind, rng.choice(ELEMS), path))
            if kind.startswith("hq") or kind == "hwt":
                c.add("Q codes")
            for q in ["Q len", "Q get 0", "Q rank 0 0", "Q select 0 0"]:
                c.add(q)
            c.add("SER"); c.add("RT")
            for q in ["Q len", "Q get 0", "Q rank 0 0", "Q select 0 0"]:
                c.add(q)
            c.add("SER")
            out.append(c)
    for kind in ["rsq256", "rsq512", "qv"]:
        c = Case("c11-empty%d" % k, tags=dict(kind=kind, n=0, trivial=True)); k += 1
        c.add("NEW %s u64 %s 0" % (kind, rng.choice(["default", "collect"])))
        c.add("SER"); c.add("RT"); c.add("Q len"); c.add("Q get 0"); c.add("SER")
        out.append(c)
    for kind in ["rsn", "rsw", "darray0", "darray1", "bv", "bvm"]:
        c = Case("c11-empty%d" % k, tags=dict(kind=kind, n=0, trivial=True)); k += 1
        c.add("NEW %s - default 0 -" % kind)
        c.add("SER"); c.add("RT"); c.add("Q get 0"); c.add("SER")
        out.append(c)
    return out


def post_c11(prop, cases, outs, profiles):
    import check as K
    fs = []
    idx = 0
    for c in cases:
        idx += 1
        first_ser = None
        for kk, l in enumerate(c.lines):
            for prof in profiles:
                a = outs[prof][idx]
                if l == "RT" and a != "TT":
                    fs.append(K.Finding("violation", prop, c, kk, l, prof, "TT", a, "deserialized value differs from the original (== / re-serialization)"))
                if l == "SER":
                    if first_ser is None or first_ser[0] != prof:
                        if first_ser is None:
                            first_ser = (prof, a)
                    elif first_ser[1] != a:
                        fs.append(K.Finding("violation", prop, c, kk, l, prof, first_ser[1][:40], a[:40], "serialization of the round-tripped value differs"))
            idx += 1
    return fs


# ------------------------------------------------------------------------------- C12
def gen_c12(rng, tier):
    out = []
    for k in range(sizes(tier, 120, 600)):
        c = any_structure_case(rng, "c12-%d" % k, tier)
        n = c.tags.get("n", 0)
        c.lines = [l for l in c.lines if l.startswith("NEW") or l == "Q codes"]
        fam = c.fam
        def hist(alphabet, ln):
            return "".join(rng.choice(alphabet) for _ in range(ln))
        if fam in ("q", "hq", "w", "hw"):
            for src in ["iter", "into"]:
                c.add("ITER %s %s" % (src, "n" * (n + 3) + "l"))
                c.add("ITER %s %s" % (src, "b" * (n + 3) + "l"))
                for _ in range(3):
                    c.add("ITER %s %s" % (src, hist("nbl", rng.choice([5, n + 4, 2 * n + 6]))))
                c.add("ITER %s %s" % (src, "l" + hist("nb", n + 2) + "lnblnbl"))
                # adapters and hints: nth (k, j, K = usize::MAX), nth_back (r, q, R), size_hint (h), also past the ends
                c.add("ITER %s %s" % (src, hist("nbkrhl", rng.choice([6, n + 4])) + "hl" + rng.choice(["K", "R", "jq"]) + "hlnbhl"))
                c.add("ITER %s %s" % (src, rng.choice(["n", "b", ""]) + rng.choice(["K", "R"]) + "hlnbhl"))
                c.add("ITER %s %s" % (src, hist("jq", max(1, n // 8 + 2)) + "hlkrhl"))
        elif fam in ("qv", "rsq"):
            for src in ["iter", "into"]:
                c.add("ITER %s %s" % (src, "n" * (n + 4)))
                c.add("ITER %s %s" % (src, hist("nkh", rng.choice([5, n + 3])) + "hnhnh" + "Khnh"))
                c.add("ITER %s %s" % (src, "n" * n + "hnhnhkh"))
                for g in (128, 256, 384):
                    if n > g + 2:
                        c.add("ITER %s %s" % (src, "n" * g + rng.choice(["knnjnhn", "jnnknhn"])))
        elif fam in ("bv", "bvm"):
            for src in ["iter", "into"]:
                c.add("ITER %s %s" % (src, hist("nl", n + 5) + "nnll"))
                c.add("ITER %s %s" % (src, "n" * (n + 2) + "lnlnl"))
                c.add("ITER %s %s" % (src, hist("nkhl", rng.choice([6, n + 4])) + "hl" + rng.choice(["K", "j", "k"]) + "hlnhl"))
                c.add("ITER %s %s" % (src, rng.choice(["n", ""]) + "Khlnhl"))
                c.add("ITER %s %s" % (src, hist("j", max(1, n // 8 + 2)) + "hlkhl"))
            for src in ["ones", "zeros"]:
                c.add("ITER %s %s" % (src, "n" * min(n + 3, 400)))
                c.add("ITER %s %s" % (src, hist("nkh", 8) + "jhKhnh"))
            for p in [0, n, n + 1, rng.randrange(n + 1), n + 1000]:
                c.add("ITER oneswp %s %d" % ("n" * 12, p))
                c.add("ITER zeroswp %s %d" % ("n" * 12, p))
        elif fam == "da":
            c.add("ITER bits %s" % (hist("nl", n + 5)))
            c.add("ITER ones %s" % ("n" * min(n + 3, 400)))
            c.add("ITER zeros %s" % ("n" * min(n + 3, 400)))
            c.add("ITER oneswp %s %d" % ("n" * 12, rng.randrange(n + 2)))
        c.tags["cost"] = n * 30
        c.model = n <= 1100
        out.append(c)
    # bit vectors whose length is a multiple of (or next to) the word / line size, iterated to the very end by
    # every iterator, from both ends
    kk = 0
    for kind in ["bv", "bvm", "darray1", "darray0"]:
        for n in sizes(tier, [64, 512, 1024, 513], [63, 64, 65, 511, 512, 513, 1024, 1536, 4096]):
            bits, mix = C.gen_bits(rng, n)
            c = Case("c12-end%d" % kk, tags=dict(kind=kind, n=n, mix=mix, cost=n * 30))
            kk += 1
            c.add(C.bits_line(kind, "bits", bits))
            if kind.startswith("darray"):
                c.add("ITER bits %s" % ("n" * (n + 2) + "l"))
                c.add("ITER ones %s" % ("n" * (sum(bits) + 2)))
                c.add("ITER zeros %s" % ("n" * (n - sum(bits) + 2)))
            else:
                for src in ["iter", "into"]:
                    c.add("ITER %s %s" % (src, "n" * (n + 2) + "lnl"))
                    c.add("ITER %s %s" % (src, "l" + "n" * (n - 1) + "lnlnl"))
                c.add("ITER ones %s" % ("n" * (sum(bits) + 2)))
                c.add("ITER zeros %s" % ("n" * (n - sum(bits) + 2)))
            c.model = n <= 1100
            out.append(c)
    return out


# ------------------------------------------------------------------------------- C17
def gen_c17(rng, tier):
    out = []
    c = Case("c17-selword", tags=dict(kind="select_in_word"))
    words = [0, 1, 2 ** 63, 2 ** 64 - 1, 0x8080808080808080, 0x0101010101010101, 0xFF, 0xFF00000000000000, 0x00FF00FF00FF00FF, 0xAAAAAAAAAAAAAAAA, 0x5555555555555555]
    for b in range(8):
        words += [0xFF << (8 * b), 1 << (8 * b), 0x80 << (8 * b), (2 ** 64 - 1) ^ (0xFF << (8 * b))]
    for _ in range(sizes(tier, 1500, 20000)):
        st = rng.choice(["uniform", "sparse", "dense", "bytes"])
        if st == "uniform":
            w = rng.getrandbits(64)
        elif st == "sparse":
            w = 0
            for _ in range(rng.randrange(0, 6)):
                w |= 1 << rng.randrange(64)
        elif st == "dense":
            w = 2 ** 64 - 1
            for _ in range(rng.randrange(0, 6)):
                w &= ~(1 << rng.randrange(64))
        else:
            w = 0
            for b in range(8):
                w |= rng.choice([0, 0xFF, 0x80, 0x01, rng.getrandbits(8)]) << (8 * b)
        words.append(w)
    sweep = Case("c17-selword-bytes", tags=dict(kind="select_in_word", mix="every byte value x every in-byte rank x 3 byte positions"))
    for b in range(256):
        pcb = bin(b).count("1")
        for r in range(pcb):
            for j in (0, 3, 7):
                sweep.add("FN selword %d %d" % (b << (8 * j), r))
                low = (1 << (8 * j)) - 1
                sweep.add("FN selword %d %d" % ((b << (8 * j)) | low, 8 * j + r))
    out.append(sweep)
    for w in words:
        pc = bin(w).count("1")
        for kq in sorted(set([0, pc - 1 if pc else 0, pc, min(pc + 1, 63), 63, rng.randrange(64)])):
            c.add("FN selword %d %d" % (w, kq))
    out.append(c)
    c = Case("c17-selword128", tags=dict(kind="select_in_word_u128"))
    for _ in range(sizes(tier, 1200, 12000)):
        st = rng.choice(["uniform", "lowzero", "highzero", "sparse", "full"])
        w = rng.getrandbits(128)
        if st == "lowzero":
            w &= ~(2 ** 64 - 1)
        elif st == "highzero":
            w &= 2 ** 64 - 1
        elif st == "sparse":
            w = (1 << rng.randrange(128)) | (1 << rng.randrange(128))
        elif st == "full":
            w = 2 ** 128 - 1
        pc = bin(w).count("1")
        for kq in sorted(set([0, pc - 1 if pc else 0, pc, min(pc + 1, 127), 127, rng.randrange(128)])):
            c.add("FN selword128 %d %d" % (w, kq))
    out.append(c)
    c = Case("c17-misc", tags=dict(kind="popcnt/msb"))
    for _ in range(sizes(tier, 300, 3000)):
        nn = rng.choice([1, 2, 3, 4, 8])
        ws = [rng.getrandbits(64) for _ in range(rng.randrange(0, 10))]
        c.add("FN popcnt %d %s" % (nn, " ".join(map(str, ws))))
        wd = rng.choice([8, 16, 32, 64, 128])
        v = rng.choice([0, 1, 2 ** wd - 1, 2 ** (wd - 1), rng.getrandbits(wd), 1 << rng.randrange(wd)])
        c.add("FN msb %d %d" % (wd, v))
    out.append(c)
    for k in range(sizes(tier, 150, 1500)):
        wd = rng.choice([8, 16, 32, 64, 65, 128])
        bits = 64 if wd == 65 else wd
        n = rng.choice([0, 1, 2, 5, 40, 300])
        four = rng.random() < 0.5
        shift = rng.randrange(0, bits - (1 if four else 0))
        vals = [rng.choice([rng.getrandbits(bits), rng.getrandbits(bits) & (0xF << shift), 2 ** bits - 1, 0]) for _ in range(n)]
        c = Case("c17-part%d" % k, tags=dict(kind="part4" if four else "part2", width=wd, shift=shift, n=n))
        c.add("FN %s %d %d %s" % ("part4" if four else "part2", wd, shift, " ".join(map(str, vals))))
        out.append(c)
    # the partitions by the digits of a CODE (used level by level by the Huffman-shaped trees): symbols whose code ended
    # above this level keep their relative order after the groups of the others
    for k in range(sizes(tier, 80, 600)):
        wd = rng.choice([8, 16, 32, 64, 65, 128])
        four = rng.random() < 0.5
        frag = 2 if four else 1
        nsym = rng.choice([1, 2, 5, 17, 40])
        codes = []
        for _ in range(nsym):
            ln = frag * rng.randrange(0, 32 // frag + 1)          # 0 = symbol without a code (never in the sequence)
            codes.append((rng.getrandbits(ln) if ln else 0, ln))
        usable = [i for i, (_, ln) in enumerate(codes) if ln > 0] or [0]
        if codes[usable[0]][1] == 0:
            codes[0] = (1, frag)
        shift = frag * rng.randrange(1, 32 // frag + 1)
        n = rng.choice([0, 1, 2, 9, 60, 300])
        vals = [rng.choice(usable) for _ in range(n)]
        c2 = Case("c17-partc%d" % k, tags=dict(kind="part4c" if four else "part2c", width=wd, shift=shift, n=n))
        c2.add("FN %s %d %d %d %s %s" % ("part4c" if four else "part2c", wd, shift, nsym,
                                        " ".join("%d %d" % cl for cl in codes), " ".join(map(str, vals))))
        c2.model = False
        out.append(c2)
    c = Case("c17-remap", tags=dict(kind="text_remap"))
    for _ in range(sizes(tier, 200, 2000)):
        n = rng.choice([0, 1, 2, 10, 300])
        alpha = rng.sample(range(256), rng.randrange(1, 257))
        c.add("FN remap %s" % " ".join(str(rng.choice(alpha)) for _ in range(n)))
    # alphabets that are (nearly) compact already: 0..d-1, 1..d, 0..d with one value missing (largest
    # byte = number of distinct bytes), a single byte, all 256 bytes; every byte of the alphabet occurs
    for d in sizes(tier, [1, 2, 3, 4, 5, 16, 64, 128, 254, 255, 256], list(range(1, 257))):
        alphas = [list(range(d))]
        if d < 256:
            alphas.append(list(range(1, d + 1)))
            miss = rng.randrange(0, d)
            alphas.append([x for x in range(d + 1) if x != miss])
            alphas.append([rng.randrange(0, 256)] if d == 1 else sorted(rng.sample(range(256), d)))
        for alpha in alphas:
            text = list(alpha) + [rng.choice(alpha) for _ in range(rng.choice([0, 3, 40]))]
            rng.shuffle(text)
            c.add("FN remap %s" % " ".join(map(str, text)))
    out.append(c)
    return out


# ------------------------------------------------------------------------------- C18
def gen_c18(rng, tier):
    out = []
    for k in range(sizes(tier, 80, 400)):
        c = any_structure_case(rng, "c18-%d" % k, tier, small=False)
        if c.fam in ("qv", "bvm"):
            c.fam = "skip"
        queries = [l for l in c.lines if l.startswith("Q ") and l != "Q codes"]
        c.add("SER")
        for q in queries:
            c.add("THREADS %d %s" % (rng.choice([2, 4, 8, 16]), q[2:]))
        for q in queries:      # repeating a query gives the same answer
            c.add(q)
        # threads running DIFFERENT queries at the same time (a query-time cache or hint shared between
        # calls is torn only by that): batches of single queries with the same operation
        groups = {}
        for q in queries:
            t = q.split()
            if len(t) >= 3 and not t[1].endswith("all") and all(x.isdigit() for x in t[2:]):
                groups.setdefault((t[1], len(t) - 2), []).append(t[2:])
        for (op, ar), argl in sorted(groups.items()):
            if len(argl) >= 2:
                flat = [x for a in argl[:48] for x in a]
                c.add("TMIX %d %d %s %d %s" % (rng.choice([4, 8, 16]), 40, op, ar, " ".join(flat)))
        c.add("SER")
        c.model = False
        out.append(c)
    # a query must depend on the structure's CONTENT only, not on which object sat at an address before or on what was
    # asked last: two trees of the same type and depth exchanged by mem::swap (addresses stay, contents move), and a
    # tree dropped and another built in its place, with the same queries before and after
    kk2 = 0
    for kind in QWT_KINDS + HQ_KINDS + ["wt", "hwt"]:
        for rep in range(sizes(tier, 1, 3)):
            elem = rng.choice(["u8", "u16", "u32"])
            n = rng.choice([300, 900, 2100])
            alpha = sorted(rng.sample(range(1, 200), rng.choice([5, 17, 40])))
            a = [rng.choice(alpha) for _ in range(n)]
            b = [rng.choice(alpha) for _ in range(n)]
            if max(a) != max(b):
                b[0] = max(a) if max(a) > max(b) else b[0]
                a[0] = max(b) if max(b) > max(a) else a[0]
            c = Case("c18-swap%d" % kk2, tags=dict(kind=kind, elem=elem, n=n, mix="swap/rebuild", cost=n * 20))
            kk2 += 1
            fam = "hq" if kind.startswith("hq") else "q" if kind.startswith("q") else "hw" if kind == "hwt" else "w"
            c.fam = fam
            qs = []
            for sy in rng.sample(alpha, min(4, len(alpha))):
                for kq in (0, 1, rng.randrange(40)):
                    qs.append("Q select %d %d" % (sy, kq))
                qs.append("Q rank %d %d" % (sy, rng.randrange(n + 1)))
            qs.append("Q get %d" % rng.randrange(n))
            c.add(C.new_line(kind, elem, "new", a))
            for q in qs:
                c.add(q)
            c.add("STORE m")
            c.add(C.new_line(kind, elem, "new", b))
            for q in qs:
                c.add(q)
            c.add("SWAP m")
            for q in qs:
                c.add(q)
            c.add("SWAP m")
            for q in qs:
                c.add(q)
            # the same symbol asked right before and right after the exchange (nothing else in between)
            for sy in rng.sample(alpha, min(5, len(alpha))):
                k1, k2 = rng.randrange(30), rng.randrange(30)
                for q in ("select", "rank"):
                    c.add("Q %s %d %d" % (q, sy, k1))
                    c.add("SWAP m")
                    c.add("Q %s %d %d" % (q, sy, k1))
                    c.add("Q %s %d %d" % (q, sy, k2))
                    c.add("SWAP m")
                    c.add("Q %s %d %d" % (q, sy, k2))
                c.add("Q get %d" % k1)
                c.add("SWAP m")
                c.add("Q get %d" % k1)
            c.add("DROP")
            c.add(C.new_line(kind, elem, "new", a))
            for q in qs:
                c.add(q)
            c.seq = a
            c.model = False
            out.append(c)
    # symbols that agree in their low 8 / 16 / 20 / 24 / 32 bits asked alternately at the same positions: an answer
    # remembered under part of the query only comes back for the wrong symbol
    kk3 = 0
    for kind in QWT_KINDS[:2] + HQ_KINDS[:2] + ["wt", "hwt"]:
        for elem in sizes(tier, ["u32"], ["u32", "u64"]):
            n = rng.choice([400, 1100])
            lows = rng.sample(range(1, 200), 3)
            # (Huffman-shaped trees keep a code table indexed by symbol: small symbols only there)
            shifts = [8, 12, 16] if kind.startswith("h") else [8, 16, 20, 24] + ([32, 40] if elem == "u64" else [])
            alpha = sorted(set(lows + [l + (1 << sh) * m for l in lows for sh in shifts for m in (1, 3)]))
            a = [rng.choice(alpha) for _ in range(n)]
            c = Case("c18-low%d" % kk3, tags=dict(kind=kind, elem=elem, n=n, mix="lowbits", cost=n * 20))
            kk3 += 1
            c.fam = "hq" if kind.startswith("hq") else "q" if kind.startswith("q") else "hw" if kind == "hwt" else "w"
            c.add(C.new_line(kind, elem, "new", a))
            flat = {"rank": [], "select": []}
            for l in lows:
                fam_syms = [x for x in alpha if (x - l) % 256 == 0]
                for _ in range(3):
                    i, kq = rng.randrange(n + 1), rng.randrange(12)
                    for sy in fam_syms + fam_syms[::-1]:
                        c.add("Q rank %d %d" % (sy, i))
                        flat["rank"] += [str(sy), str(i)]
                    for sy in fam_syms + fam_syms[::-1]:
                        c.add("Q select %d %d" % (sy, kq))
                        flat["select"] += [str(sy), str(kq)]
            c.add("SER")
            for op in ("rank", "select"):
                c.add("TMIX 8 20 %s 2 %s" % (op, " ".join(flat[op][:160])))
            c.add("SER")
            c.seq = a
            c.model = False
            out.append(c)
    # select structures with neighbouring occurrence indices queried concurrently: bit vectors whose ones (zeros)
    # are spread so that in-block scans cross several words, every select structure
    kk = 0
    for kind in ["darray1", "darray0", "rsn", "rsw"]:
        for gap in sizes(tier, [50, 200], [3, 50, 130, 200, 700]):
            n = rng.choice([20000, 60000])
            bits = [0] * n
            pos = rng.randrange(gap)
            while pos < n:
                bits[pos] = 1
                pos += gap + rng.randrange(-gap // 3, gap // 3 + 1)
            ones = sum(bits)
            c = Case("c18-mix%d" % kk, tags=dict(kind=kind, n=n, mix="gap%d" % gap, cost=n))
            kk += 1
            c.add(C.bits_line(kind, "bits" if kind.startswith("darray") else "new", bits))
            c.fam = "da" if kind.startswith("darray") else kind
            c.add("SER")
            for op, cnt in (("select1", ones), ("select0", n - ones)):
                if kind == "darray1" and op == "select0":
                    continue
                for _ in range(3):
                    lo = rng.randrange(max(cnt - 64, 1))
                    args = [str(lo + j) for j in range(min(64, cnt - lo))]
                    if len(args) >= 2:
                        c.add("TMIX %d %d %s 1 %s" % (rng.choice([4, 8, 16]), 60, op, " ".join(args)))
            c.add("SER")
            c.model = False
            out.append(c)
    return out


def post_c18(prop, cases, outs, profiles):
    import check as K
    fs = []
    idx = 0
    for c in cases:
        idx += 1
        sers = {}
        for kk, l in enumerate(c.lines):
            for prof in profiles:
                a = outs[prof][idx]
                if l == "SER":
                    if prof in sers and sers[prof] != a:
                        fs.append(K.Finding("violation", prop, c, kk, l, prof, sers[prof][:40], a[:40], "serialized form changed after a batch of queries"))
                    sers.setdefault(prof, a)
            idx += 1
    return fs


# ------------------------------------------------------------------------------- C19
def tail_swap(rng, seq, period=256):
    """a different sequence with the same length and the same symbol counts that differs only inside the
    last partial block of `period` symbols (or anywhere if the length is a multiple): swap two unequal
    symbols; None if impossible"""
    n = len(seq)
    lo = (n // period) * period if n % period else max(0, n - period)
    idx = list(range(lo, n))
    rng.shuffle(idx)
    for a in idx:
        for b in idx:
            if seq[a] != seq[b]:
                s2 = list(seq)
                s2[a], s2[b] = s2[b], s2[a]
                return s2
    return None


def gen_c19(rng, tier):
    out = []
    k = 0
    # quad vectors: every construction path gives equal values; a different sequence never compares
    # equal, in particular one that differs only in the last partial 256-symbol line
    for _ in range(sizes(tier, 40, 200)):
        n = rng.choice([1, 2, 3, 100, 255, 256, 257, 300, 511, 512, 513, 700, 1000])
        s, mix = C.gen_quad_seq(rng, n)
        c = Case("c19-qv%d" % k, tags=dict(kind="qv", n=n, mix=mix))
        k += 1
        c.add(C.new_line("qv", "u8", "collect", s))
        c.add("STORE a")
        for path in ["builder", "extend", "hist:e%d,p%d,e%d" % (n // 3, min(2, n - n // 3), n)]:
            c.add(C.new_line("qv", "u8", path, s))
            c.add("EQ a")
        c.add("CLONE")
        c.add("EQ a")
        c.add(C.new_line("qv", "u8", "collect", [(x + 1) % 4 for x in s][: max(n // 2, 1)]))
        c.add("CLONEFROM a"); c.add("EQ a"); c.add("Q len"); c.add("Q getall")
        for s2 in [tail_swap(rng, s), [x if i != n - 1 else (x + 1) % 4 for i, x in enumerate(s)],
                   [x if i != rng.randrange(n) else (x + 2) % 4 for i, x in enumerate(s)], s[:-1], s + [s[-1]]]:
            if s2 is not None and s2 != s:
                c.add(C.new_line("qv", "u8", "collect", s2))
                c.add("EQ a")
        c.model = False
        out.append(c)
    for _ in range(sizes(tier, 60, 300)):
        fam = rng.choice(["q", "hq", "w", "hw"])
        n = rng.choice([0, 1, 2, 100, 257, 1000, 2049])
        mx = rng.choice([0, 1, 3, 4, 17, 100, 255])
        alpha, _ = C.gen_alphabet(rng, mx)
        seq, mix = C.gen_seq(rng, n, alpha)
        kinds = {"q": QWT_KINDS, "hq": HQ_KINDS, "w": ["wt"], "hw": ["hwt"]}[fam]
        kind = rng.choice(kinds)
        c = Case("c19-%d" % k, tags=dict(kind=kind, n=n, mix=mix, cost=n * 30))
        k += 1
        first = True
        # every path and every admissible width: same answers; same type: equal values
        for elem in ["u8", "u16", "u32", "u64", "usize", "u128"]:
            for path in ["new", "from", "collect"]:
                c.add(C.new_line(kind, elem, path, seq))
                if fam in ("hq", "hw"):
                    c.add("Q codes")
                c.add("Q len")
                c.add("Q getall")
                for sym in sorted(set(seq))[:4] + [mx + 1]:
                    c.add("Q rankall %d" % sym)
                    c.add("Q selectall %d %d" % (sym, seq.count(sym) + 1))
                if path == "new":
                    c.add("STORE %s" % elem)
                else:
                    c.add("EQ %s" % elem)
                c.add("CLONE")
                c.add("EQ %s" % elem)
        # a different sequence never compares equal
        if n:
            seq2 = list(seq)
            j = rng.randrange(n)
            seq2[j] = (seq2[j] + 1) % (mx + 1) if mx else 1
            if seq2 != seq:
                c.add(C.new_line(kind, "u8", "new", seq2))
                if fam in ("hq", "hw"):
                    c.add("Q codes")
                c.add("EQ u8")
            # same length, same symbol counts, differs only near the end
            seq3 = tail_swap(rng, seq)
            if seq3 is not None:
                c.add(C.new_line(kind, "u8", "new", seq3))
                if fam in ("hq", "hw"):
                    c.add("Q codes")
                c.add("EQ u8")
            # clone_from over a tree with other contents: the source's value and answers
            c.add("CLONEFROM u8"); c.add("EQ u8"); c.add("Q len"); c.add("Q getall")
            for sym in sorted(set(seq))[:3]:
                c.add("Q rankall %d" % sym)
        c.model = False
        out.append(c)
    # quad / bit structures: construction paths compare equal
    for _ in range(sizes(tier, 50, 250)):
        n = rng.choice([0, 1, 255, 256, 257, 1000, 2049, 4097])
        kind = rng.choice(["rsq256", "rsq512"])
        s, mix = C.gen_quad_seq(rng, n)
        c = Case("c19-r%d" % k, tags=dict(kind=kind, n=n, mix=mix))
        k += 1
        c.add(C.new_line(kind, "u64", "new", s))
        c.add("STORE a")
        for path in ["from", "collect"]:
            c.add(C.new_line(kind, "u64", path, s))
            c.add("EQ a")
            c.add("Q rankall %d" % rng.randrange(4))
        c.add("CLONE")
        c.add("EQ a")
        if n:
            s2 = list(s)
            s2[rng.randrange(n)] ^= 1
            c.add(C.new_line(kind, "u64", "new", s2))
            c.add("EQ a")
            s3 = tail_swap(rng, s)
            if s3 is not None:
                c.add(C.new_line(kind, "u64", "new", s3))
                c.add("EQ a")
            c.add("CLONEFROM a"); c.add("EQ a"); c.add("Q rankall %d" % rng.randrange(4)); c.add("Q selectall %d %d" % (s[0], s.count(s[0]) + 1))
        c.model = False
        out.append(c)
    for _ in range(sizes(tier, 50, 250)):
        n = rng.choice([0, 1, 63, 64, 65, 511, 512, 513, 2000])
        bits, mix = C.gen_bits(rng, n)
        if bits and bits[-1] == 0 and rng.random() < 0.7:
            bits[-1] = 1       # position-based constructors cannot express trailing zeros
        kind = rng.choice(["rsn", "rsw", "darray0", "darray1", "bv", "bvm"])
        c = Case("c19-b%d" % k, tags=dict(kind=kind, n=n, mix=mix))
        k += 1
        pos = [i for i, b in enumerate(bits) if b]
        if kind in ("rsn", "rsw"):
            c.add(C.bits_line(kind, "new", bits)); c.add("STORE a")
            c.add(C.bits_line(kind, "from", bits)); c.add("EQ a")
        elif kind.startswith("darray"):
            c.add(C.bits_line(kind, "new", bits)); c.add("STORE a")
            c.add(C.bits_line(kind, "bits", bits)); c.add("EQ a")
            if bits and bits[-1] == 1:
                c.add("NEW %s - pos %d %s" % (kind, len(pos), " ".join(map(str, pos)))); c.add("EQ a")
        else:
            c.add(C.bits_line(kind, "bits", bits)); c.add("STORE a")
            if bits and bits[-1] == 1:
                c.add("NEW %s - pos %d %s" % (kind, len(pos), " ".join(map(str, pos)))); c.add("EQ a")
                # the same set of positions given with repetitions and out of order: the same vector, the same counters
                pos2 = pos + [rng.choice(pos) for _ in range(rng.randrange(1, 6))]
                rng.shuffle(pos2)
                c.add("NEW %s - pos %d %s" % (kind, len(pos2), " ".join(map(str, pos2)))); c.add("EQ a")
                c.add("Q countones"); c.add("Q countzeros"); c.add("Q len")
        c.add("CLONE"); c.add("EQ a")
        # the same bits followed by zeros inside the same line / word: a different sequence
        for extra in [1, 3, 64]:
            b3 = bits + [0] * extra
            c.add(C.bits_line(kind, "new" if kind in ("rsn", "rsw") or kind.startswith("darray") else "bits", b3)); c.add("EQ a")
        if n:
            b2 = list(bits); b2[rng.randrange(n)] ^= 1
            c.add(C.bits_line(kind, "new" if kind in ("rsn", "rsw") or kind.startswith("darray") else "bits", b2)); c.add("EQ a")
        c.add("CLONEFROM a"); c.add("EQ a")
        if kind in ("bv", "bvm"):
            c.add("Q countones"); c.add("Q countzeros"); c.add("Q len"); c.add("Q bits")
        else:
            c.add("Q select1all %d" % (sum(bits) + 1)); c.add("Q nones")
            if kind != "darray1":
                pass
        # a mutable vector filled in two steps (first k bits, then extend / append of the rest): the same vector
        if kind in ("bv", "bvm") and n:
            for kcut in sorted(set([1, n // 2, max(n - 1, 1), rng.randrange(1, n + 1)])):
                c.add(C.bits_line("bvm", "bits", bits[:kcut]))
                rest = bits[kcut:]
                if rng.random() < 0.5 or not rest:
                    c.add("OP extbits %s" % ("".join(map(str, rest)) or "-"))
                else:
                    for i in range(0, len(rest), 64):
                        ch = rest[i:i + 64]
                        c.add("OP append %d %d" % (sum(b << j for j, b in enumerate(ch)), len(ch)))
                if kind == "bv":
                    c.add("OP toimm")
                c.add("EQ a"); c.add("Q countones"); c.add("Q countzeros")
        c.model = False
        out.append(c)
    return out


# ------------------------------------------------------------------------------- C04
def gen_c04(rng, tier):
    """every safe method, every way of obtaining a value, arguments from the whole domain"""
    out = []
    wild = [0, 1, 2, 3, 4, 5, 255, 256, 2 ** 32, 2 ** 63, MAXU - 1, MAXU]
    for k in range(sizes(tier, 160, 800)):
        c = any_structure_case(rng, "c04-%d" % k, tier)
        fam = c.fam
        n = c.tags.get("n", 0)
        how = rng.choice(["built", "built", "default", "clone", "serde"])
        head = [l for l in c.lines if l.startswith("NEW") or l == "Q codes"]
        if how == "default":
            t = head[0].split()
            head = ["NEW %s %s default 0 -" % (t[1], t[2])] if fam in ("rsn", "rsw", "da", "bv", "bvm") else ["NEW %s %s default 0" % (t[1], t[2])]
            n = 0
            c.seq = []
        c.lines = head
        if how == "clone":
            c.add("CLONE")
        if how == "serde":
            c.add("RT")
        args = wild + [n, n + 1, max(n - 1, 0), rng.randrange(n + 1)]
        width = WIDTH.get(head[0].split()[2], 64)
        tmax = 2 ** width - 1
        if fam in ("q", "hq", "w", "hw"):
            syms = [s for s in set([0, 1, 3, 4, 255, tmax, tmax - 1, 2 ** 64 + 1, 2 ** 64] + list(c.seq[:3])) if s <= tmax]
            for l in ["Q len", "Q isempty", "Q nlevels", "Q sigma"]:
                c.add(l)
            for a in args:
                c.add("Q get %d" % a)
                for s in syms:
                    c.add("Q rank %d %d" % (s, a))
                    c.add("Q select %d %d" % (s, a))
                    if fam in ("q", "hq"):
                        c.add("Q rankp %d %d" % (s, a))
            c.add("ITER iter nbnblnnbbl")
            # the safe iterator adapters with extreme arguments: nth / nth_back of usize::MAX and past either end, then len
            for src in ("iter", "into"):
                c.add("ITER %s nRhlnbhl" % src)
                c.add("ITER %s bKhlnbhl" % src)
                c.add("ITER %s %s" % (src, "".join(rng.choice("nbkrjqhl") for _ in range(10)) + "hl"))
                c.add("ITER %s %s" % (src, "q" * (n // 8 + 2) + "hlrhlnbhl"))
                c.add("ITER %s %s" % (src, "j" * (n // 8 + 2) + "hlkhlnbhl"))
        elif fam == "rsq":
            for a in args:
                c.add("Q get %d" % a)
                for s in [0, 1, 2, 3, 4, 5, 17, 255]:
                    c.add("Q rank %d %d" % (s, a))
                    c.add("Q select %d %d" % (s, a))
            for s in [0, 1, 2, 3, 4, 5, 17, 255]:
                c.add("Q occs %d" % s)
                c.add("Q occssmaller %d" % s)
            for a in args:
                c.add("Q prefetch %d" % a)
            c.add("Q len"); c.add("Q isempty"); c.add("ITER iter nnnn"); c.add("ITER iter nKhnh"); c.add("ITER into jhkhKhnh")
        elif fam == "qv":
            for a in args:
                c.add("Q get %d" % a)
            c.add("Q len"); c.add("Q isempty"); c.add("ITER iter nnnn"); c.add("ITER into nnnn")
            c.add("ITER iter nKhnh"); c.add("ITER into jhkhKhnh")
        elif fam in ("rsn", "rsw"):
            for a in args:
                for q in ["get", "rank1", "rank0", "select1", "select0"]:
                    c.add("Q %s %d" % (q, a))
            c.add("Q nones"); c.add("Q nzeros"); c.add("Q tnzeros")
        elif fam == "da":
            for a in args:
                c.add("Q get %d" % a)
                c.add("Q select1 %d" % a)
                c.add("Q select0 %d" % a)      # darray0: documented panic
            for l in ["Q len", "Q isempty", "Q countones", "Q countzeros", "Q ones", "Q zeros", "ITER bits nnll"]:
                c.add(l)
            for a in args[:6] + [n, n + 1]:
                c.add("Q oneswp %d" % a)
        else:
            for a in args:
                c.add("Q get %d" % a)
                c.add("Q getword %d" % a)       # documented panic when out of range
                for ln in [0, 1, 64, 65, MAXU]:
                    c.add("Q getbits %d %d" % (a, ln))
            if fam == "bv":
                c.add("Q nlines")
                for a in args:
                    c.add("Q prefetch %d" % a)
            for l in ["Q len", "Q isempty", "Q countones", "Q countzeros", "ITER iter nnll", "ITER into nnllnl",
                      "ITER iter nKhlnhl", "ITER into jhlkhlKhlnl", "ITER ones nKhnh", "ITER zeros jhkhn"]:
                c.add(l)
            for a in args[:6] + [n, n + 1]:
                c.add("Q oneswp %d" % a)
                c.add("Q zeroswp %d" % a)
            if fam == "bvm":
                for a in [0, n, n + 1, MAXU]:
                    c.add("OP set %d 1" % a)            # documented panic out of bounds
                    c.add("OP setbits %d 2 3" % a)
                c.add("OP append 4 2")                   # stray bit: documented panic
                c.add("OP append 1 65")
                c.add("OP push 1")
                c.add("Q len")
        c.tags.update(how=how, cost=n * 10)
        c.model = n <= 1100
        out.append(c)
    # lengths around the sampling period of the prefetch support (2048) and around the block / superblock periods,
    # queried at and just past the end, for every alias with prefetch support (two and more levels)
    k = 0
    for kind in ["qwt256pfs", "qwt512pfs", "hqwt256pfs", "hqwt512pfs"]:
        for n in sizes(tier, [2047, 2048, 2049, 4096], [2047, 2048, 2049, 4095, 4096, 4097, 6144, 8192]):
            alpha = rng.choice([[0, 1, 2, 3, 4, 5], [1, 7, 19, 33, 60], list(range(40))])
            seq = [rng.choice(alpha) for _ in range(n)]
            c = Case("c04-pfs%d" % k, tags=dict(kind=kind, elem="u8", n=n, mix="period", how="built", cost=n * 10))
            k += 1
            c.add(C.new_line(kind, "u8", rng.choice(["new", "from", "collect"]), seq))
            if kind.startswith("hq"):
                c.add("Q codes")
            for a in [0, 1, n - 1, n, n + 1, 2047, 2048, 2049, MAXU]:
                for sy in sorted(set([alpha[0], alpha[-1], alpha[len(alpha) // 2], alpha[-1] + 1])):
                    c.add("Q rankp %d %d" % (sy, a))
                    c.add("Q rank %d %d" % (sy, a))
                c.add("Q get %d" % a)
            c.seq = seq
            c.fam = "hq" if kind.startswith("hq") else "q"
            c.model = n <= 2100
            out.append(c)
    return out


# ------------------------------------------------------------------------------- C14 / C16 / C15
import math


def space_fields(ans):
    """'V<reported> <heap> <inline> <T|F>' -> (reported, heap, inline, scaled_ok)"""
    if not ans.startswith("V") or " " not in ans:
        return None
    t = ans[1:].split()
    try:
        return int(t[0]), int(t[1]), int(t[2]), t[3]
    except Exception:
        return None


def gen_c14(rng, tier):
    out = []
    k = 0
    for n in [0, 1, 255, 256, 257, 2048, 4097, 10000, 20000] + sizes(tier, [50000], [100000, 300000, 1000000]):
        for kind in QWT_KINDS + ["wt"]:
            for path in ["new", "from", "collect"]:
                elem = rng.choice(["u8", "u16", "u32", "u64", "u64", "u128"])
                mx = rng.choice([1, 3, 4, 63, 255] + ([1000, 65535] if WIDTH[elem] >= 16 else []))
                if WIDTH[elem] >= 64 and rng.random() < 0.8:
                    # wide symbols: the largest one at, just below and just above a power of two (every number of levels,
                    # also where the level count computed in floating point would be off by one)
                    kk = rng.choice([33, 40, 47, 48, 49, 50, 52, 53, 54, 55, 56, 60, 62, 63, 64] + ([65, 100, 127, 128] if WIDTH[elem] > 64 else []))
                    mx = min(2 ** WIDTH[elem] - 1, rng.choice([2 ** kk - 1, 2 ** kk - 1, 2 ** kk - 2, 2 ** kk - 3, 2 ** kk, 2 ** kk + 1]))
                c = tree_case(rng, "c14-%d" % k, kind, elem, tier, "q" if kind != "wt" else "w", n=n, maxsym=mx, sweep=False, paths=(path,))
                c.lines = [c.lines[0], "Q len", "Q nlevels", "SPACE"]
                c.tags.update(path=path, cost=n * 10)
                c.model = n <= 10000
                c.bound = ("qwt" if kind != "wt" else "wt", n, mx, kind)
                out.append(c)
                k += 1
    for n in [0, 1, 256, 4097, 20000, 100000]:
        for kind in ["rsq256", "rsq512"]:
            for path in ["new", "from", "collect"]:
                s, mix = C.gen_quad_seq(rng, n)
                c = Case("c14-r%d" % k, tags=dict(kind=kind, n=n, mix=mix, path=path, cost=n * 4))
                c.add(C.new_line(kind, "u64", path, s)); c.add("SPACE")
                c.model = n <= 20000
                c.bound = ("rsq", n, 3, kind)
                out.append(c); k += 1
        bits, mix = C.gen_bits(rng, n * 4)
        c = Case("c14-w%d" % k, tags=dict(kind="rsw", n=n * 4, mix=mix, cost=n))
        c.add(C.bits_line("rsw", rng.choice(["new", "from"]), bits)); c.add("SPACE")
        c.model = n <= 20000
        c.bound = ("rsw", n * 4, 1, "rsw")
        out.append(c); k += 1
    return out


def post_c14(prop, cases, outs, profiles):
    import check as K
    fs = []
    idx = 0
    for c in cases:
        idx += 1
        for kk, l in enumerate(c.lines):
            if l == "SPACE" and hasattr(c, "bound"):
                for prof in profiles:
                    f = space_fields(outs[prof][idx])
                    if not f:
                        continue
                    rep, heap, inline, ok = f
                    what, n, mx, kind = c.bound
                    if what == "qwt":
                        L = max(1, (max(mx.bit_length(), 1) + 1) // 2) if n else 1
                        r = 1 / 8 if "256" in kind else 1 / 16
                        pf = 1 / 100 if kind.endswith("pfs") else 0
                        bound = L * (n / 4 * (1 + r + 1 / 128 + pf) + 3000)
                    elif what == "wt":
                        L = max(mx.bit_length(), 1) if n else 0
                        bound = 1.05 * n * L / 8 + 600 * L + 64
                    elif what == "rsq":
                        r = 1 / 8 if "256" in kind else 1 / 16
                        bound = n / 4 * (1 + r + 1 / 128) + 600
                    else:
                        bound = 1.05 * n / 8 + 600
                    if heap > bound:
                        fs.append(K.Finding("violation", prop, c, kk, l, prof, "heap <= %d" % bound, "heap = %d" % heap, "retained heap bytes exceed the stated overhead"))
            idx += 1
    return fs


def gen_c16(rng, tier):
    out = []
    for k in range(sizes(tier, 150, 700)):
        c = any_structure_case(rng, "c16-%d" % k, tier, small=False)
        c.lines = [l for l in c.lines if l.startswith("NEW") or l == "Q codes"] + ["SPACE"]
        c.model = c.tags.get("n", 0) <= 5000
        out.append(c)
    return out + gen_c16_sparse(rng) + gen_c16_grown(rng, tier) + gen_c16_agg(rng, tier)


def gen_c16_agg(rng, tier):
    """a boxed slice of structures of DIFFERENT sizes built by the user (the generic SpaceUsage impls of the crate
    report on it): small element first, large element first, many elements"""
    out = []
    k = 0
    for elem in ["bv", "rsw", "rsn", "qv", "rsq256"]:
        for sizes_ in ([100, 50000, 7], [50000, 100, 7], [0, 3000], [rng.randrange(1, 9000) for _ in range(rng.randrange(2, 9))]):
            c = Case("c16-agg%d" % k, tags=dict(kind="aggbox", elem=elem, n=sum(sizes_), mix="boxed slice of %d structures" % len(sizes_), cost=sum(sizes_)))
            k += 1
            c.fam = "agg"
            c.seq = []
            c.add("NEW aggbox %s new %d %s" % (elem, len(sizes_), " ".join(map(str, sizes_))))
            c.add("SPACE")
            c.model = False
            out.append(c)
    return out


def gen_c16_grown(rng, tier):
    """growable bit vectors filled by push / extend: the vector holds spare capacity (amortised
    doubling), which is retained memory the reported figure has to include; lengths just above a power
    of two of 512-bit lines leave almost half of the allocation unused"""
    out = []
    for k, lines in enumerate(sizes(tier, [1034, 300], [1034, 300, 2100, 4100, 520])):
        n = 512 * lines + rng.randrange(0, 512)
        bits = "".join(rng.choice("01") for _ in range(n))
        for how in ["new", "withcap"]:
            c = Case("c16-grown%d-%s" % (k, how), tags=dict(kind="bvm", n=n, mix="grown by extend", path=how, cost=2000))
            c.fam = "bvm"
            c.seq = []
            c.add("NEW bvm - %s %d %s" % (how, 64 if how == "withcap" else 0, ("1" * 64) if how == "withcap" else "-"))
            c.add("OP extbits %s" % bits)
            c.add("Q len")
            c.add("SPACE")
            if rng.random() < 0.5:
                c.add("OP shrink")
                c.add("SPACE")
            c.model = False
            out.append(c)
    return out


def gen_c16_sparse(rng):
    out = []
    for k, (ones, gap) in enumerate([(2000, 100), (1500, 80), (5000, 70), (1024, 65)]):
        for kind in ["darray0", "darray1"]:
            pos = []
            p = 0
            for _ in range(ones):
                p += rng.randrange(gap, gap + 20)
                pos.append(p)
            c = Case("c16-sparse%d-%s" % (k, kind), tags=dict(kind=kind, n=pos[-1] + 1, mix="sparse positions", cost=1000))
            c.fam = "da"
            c.seq = []
            c.add("NEW %s - pos %d %s" % (kind, len(pos), " ".join(map(str, pos))))
            c.add("SPACE")
            c.model = False
            out.append(c)
    return out


def post_c16(prop, cases, outs, profiles):
    import check as K
    fs = []
    idx = 0
    for c in cases:
        idx += 1
        for kk, l in enumerate(c.lines):
            if l == "SPACE":
                for prof in profiles:
                    f = space_fields(outs[prof][idx])
                    if not f:
                        continue
                    rep, heap, inline, ok = f
                    actual = heap + inline
                    fam = getattr(c, "fam", "")
                    comps = 40
                    slack = heap / 32 + 128 * comps
                    if fam in ("hq", "hw"):
                        sigma = max(c.seq) if c.seq else 0
                        slack += 96 * (sigma + 1) + 4096
                    if abs(rep - actual) > slack:
                        fs.append(K.Finding("violation", prop, c, kk, l, prof, "|reported - retained| <= %d" % slack, "reported %d retained %d" % (rep, actual), "space_usage_byte far from retained memory"))
                    if ok != "T":
                        fs.append(K.Finding("violation", prop, c, kk, l, prof, "T", ok, "KiB/MiB/GiB are not the byte count scaled"))
            idx += 1
    return fs


def gen_c15(rng, tier):
    out = []
    k = 0
    for _ in range(sizes(tier, 90, 400)):
        fam = rng.choice(["hq", "hw"])
        kind = rng.choice(HQ_KINDS[:2]) if fam == "hq" else "hwt"
        n = rng.choice([1, 2, 50, 1000, 5000, 20000])
        c = huff_case(rng, "c15-%d" % k, kind, rng.choice(["u8", "u16", "u32"]), tier, fam, n=n, sweep=False)
        c.lines = [c.lines[0], "Q codes", "Q nlevels", "SPACE"]
        c.fam = fam
        c.model = n <= 5000
        out.append(c)
        k += 1
    # explicit count profiles: the shape of the code depends on the exact multiset of counts
    # (hapax-heavy alphabets next to symbols occurring twice, one dominant small / large symbol with many
    # rare ones, two plateaus, counts differing by one) and on which symbol VALUES are frequent
    profs = []
    for a, b, cb in sizes(tier, [(1000, 24, 2), (300, 7, 2), (60, 3, 3)], [(1000, 24, 2), (300, 7, 2), (60, 3, 3), (3000, 50, 2), (500, 100, 2), (120, 5, 4)]):
        profs.append(("hapax", [1] * a + [cb] * b))
    for rare in sizes(tier, [200, 30], [200, 30, 600, 5]):
        profs.append(("dominant-small", [rare * 49] + [1] * rare))
        profs.append(("dominant-large", [1] * rare + [rare * 49]))
    profs.append(("plateaus", [3] * 40 + [6] * 40))
    profs.append(("plus-one", [2] * 64 + [3] * 3))
    profs.append(("increasing", list(range(1, 70))))
    profs.append(("decreasing", list(range(70, 0, -1))))
    for name, counts in profs:
        for fam in ["hq", "hw"]:
            kind = rng.choice(HQ_KINDS[:2]) if fam == "hq" else "hwt"
            elem = "u16" if len(counts) < 60000 else "u32"
            shift = rng.choice([0, 0, 1, 7])
            seq = []
            for sym, cnt in enumerate(counts):
                seq += [sym + shift] * cnt
            rng.shuffle(seq)
            c = Case("c15-p%d" % k, tags=dict(kind=kind, elem=elem, n=len(seq), alphabet=len(counts), mix=name, path="new", trivial=False, cost=len(seq) * 12))
            c.add(C.new_line(kind, elem, "new", seq))
            c.add("Q codes")
            c.add("Q nlevels")
            c.add("SPACE")
            c.seq = seq
            c.fam = fam
            c.model = len(seq) <= 5000
            out.append(c)
            k += 1
    # long sequences over very large long-tailed alphabets (one dominant symbol, hundreds of thousands of symbols occurring
    # once): anything that rescales or floors the frequencies only shows here.  Given in the compact `a..b*c` notation.
    for dom, tail in sizes(tier, [(300000, 224288), (3000000, 1194304)], [(150000, 112144), (300000, 224288), (3000000, 1194304), (6000000, 600000)]):
        for fam in (["hq", "hw"] if dom + tail < 1000000 or tier == "thorough" else ["hq"]):
            kind = rng.choice(HQ_KINDS[:2]) if fam == "hq" else "hwt"
            c = Case("c15-big%d" % k, model=False, tags=dict(kind=kind, elem="u32", n=dom + tail, alphabet=tail + 1, mix="long-tail", path="new", trivial=False, cost=(dom + tail) * 4))
            c.add("NEW %s u32 new %d 0*%d 1..%d*1" % (kind, dom + tail, dom, tail + 1))
            c.add("Q codes")
            c.add("Q nlevels")
            c.add("SPACE")
            c.seq = [0] * dom + list(range(1, tail + 1))
            c.fam = fam
            out.append(c)
            k += 1
    return out


def post_c15(prop, cases, outs, profiles):
    import check as K
    fs = []
    idx = 0
    for c in cases:
        idx += 1
        codes = None
        for kk, l in enumerate(c.lines):
            for prof in profiles:
                a = outs[prof][idx]
                if l == "Q codes" and a.startswith("V") and ";" in a and getattr(c, "seq", None):
                    ents = [e.split(":") for e in a.split(";", 1)[1].split(",") if e]
                    codes = {int(s): int(ln) for s, _, ln in ents}
                    seq = c.seq
                    n = len(seq)
                    freq = {}
                    for x in seq:
                        freq[x] = freq.get(x, 0) + 1
                    frag = 2 if c.fam == "hq" else 1
                    d = 4 if c.fam == "hq" else 2
                    bits = sum(f * codes.get(s, 0) for s, f in freq.items())
                    h0 = sum(f / n * math.log2(n / f) for f in freq.values())
                    limit = n * (h0 + frag)
                    if bits > limit * (1 + 1e-9) + 1e-6:
                        fs.append(K.Finding("violation", prop, c, kk, l, prof, "level bits <= n*(H0+%d) = %.1f" % (frag, limit), "%d" % bits, "level data exceeds the entropy bound"))
                    # never more than the plain tree
                    mx = max(seq)
                    plain = n * (frag * max(1, (max(mx.bit_length(), 1) + frag - 1) // frag))
                    if bits > plain:
                        fs.append(K.Finding("violation", prop, c, kk, l, prof, "level bits <= plain %d" % plain, "%d" % bits, "Huffman-shaped tree larger than the plain tree"))
                    # the assumption about minimum_redundancy: no worse than the Shannon code
                    sh = 0
                    for s, f in freq.items():
                        ln = 1
                        while d ** ln * f < n:
                            ln += 1
                        sh += f * ln * frag
                    if bits > sh:
                        fs.append(K.Finding("violation", prop, c, kk, l, prof, "cost <= Shannon cost %d" % sh, "%d" % bits, "assumption on the external coder (optimal lengths) does not hold on this input"))
                    c.level_bits = bits
                if l == "SPACE" and hasattr(c, "level_bits"):
                    f = space_fields(a)
                    if f:
                        rep, heap, inline, ok = f
                        r = 1 / 8 if "256" in c.lines[0].split()[1] else (1 / 16 if "512" in c.lines[0].split()[1] else 0.05)
                        levels = max(codes.values()) // (2 if c.fam == "hq" else 1) if codes else 1
                        sigma = max(c.seq)
                        bound = c.level_bits / 8 * (1 + r + 1 / 64) + 3000 * levels + 64 * (sigma + 1) + 8192
                        if heap > bound:
                            fs.append(K.Finding("violation", prop, c, kk, l, prof, "heap <= %d" % bound, "heap = %d" % heap, "retained memory exceeds entropy-bounded level data + overhead + tables"))
            idx += 1
    return fs


PROPS = {
    "C14": dict(gen=gen_c14, post=post_c14),
    "C15": dict(gen=gen_c15, post=post_c15),
    "C16": dict(gen=gen_c16, post=post_c16),
    "C04": dict(gen=gen_c04),
    "C09": dict(gen=gen_c09, profiles=["dbg", "rel", "relnopf"], post=post_c09),
    "C10": dict(gen=gen_c10),
    "C11": dict(gen=gen_c11, post=post_c11),
    "C12": dict(gen=gen_c12),
    "C17": dict(gen=gen_c17),
    "C18": dict(gen=gen_c18, post=post_c18, sendsync=True),
    "C19": dict(gen=gen_c19),
    "C06": dict(gen=gen_c06),
    "C07": dict(gen=gen_c07),
    "C08": dict(gen=gen_c08),
    "C02": dict(gen=gen_c02),
    "C03": dict(gen=gen_c03),
    "C13": dict(gen=gen_c13),
    "C05": dict(gen=gen_c05),
    "C01": dict(gen=gen_c01),
}

def kf_bvm_get_bits_end(ctx, f):
    """BitVectorMut::get_bits(i, len) with i + len == n_bits answers None (>= instead of >)"""
    t = ctx["cmd"]
    if ctx["kind"] != "bvm" or not ((t[0] == "Q" and t[1] == "getbits") or (t[0] == "THREADS" and len(t) > 2 and t[2] == "getbits")):
        return False
    # the object must still be a BitVectorMut at this point
    kind = "bvm"
    nbits = None
    for l in ctx["lines"]:
        if l.startswith("OP toimm"):
            kind = "bv"
        if l.startswith("OP tomut"):
            kind = "bvm"
    got, exp = f.got.split("|")[0], f.expected.split("|")[0]
    if kind != "bvm" or got != "N" or not exp.startswith("S"):
        return False
    return True


def kf_code_longer_than_32(ctx, f):
    """Huffman tree whose code exceeds 32 bits: only reachable with millions of symbols"""
    return ctx["kind"] in ("hqwt256", "hqwt512", "hqwt256pfs", "hqwt512pfs", "hwt") and (ctx.get("n") or 0) >= 2000000


KNOWN_PREDICATES = {"bvm_get_bits_end": kf_bvm_get_bits_end, "code_longer_than_32_bits": kf_code_longer_than_32,
                    "never": lambda ctx, f: False}
