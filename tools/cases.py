"""Case generators.  Every random choice derives from one random.Random(seed).
A case is a dict: id, lines (commands for harness / model driver), model (bool: run the
extracted model on it), tags (distribution summary for the evidence file)."""
import random

MAXU = 2 ** 64 - 1
WIDTH = {"u8": 8, "u16": 16, "u32": 32, "u64": 64, "usize": 64, "u128": 128}

LENS_SMALL = [0, 1, 2, 3, 4, 5, 7, 31, 63, 64, 65, 100, 127, 128, 129, 255, 256, 257, 300, 511, 512, 513, 1000]
LENS_MED = [1023, 1024, 1025, 2047, 2048, 2049, 2500, 4095, 4096, 4097, 5000, 8191, 8192, 8193]
LENS_BIG = [16383, 16384, 16385, 20000, 32767, 32768, 32769, 40000, 65535, 65536, 65537]


class Case:
    def __init__(self, cid, model=True, tags=None):
        self.id = cid
        self.lines = []
        self.model = model
        self.tags = tags or {}

    def add(self, s):
        self.lines.append(s)

    def text(self):
        return "CASE %s\n%s\n" % (self.id, "\n".join(self.lines))


def pick_len(rng, tier, big_ok=True):
    r = rng.random()
    if r < 0.55:
        return rng.choice(LENS_SMALL)
    if r < 0.85 or not big_ok:
        return rng.choice(LENS_MED)
    if tier == "thorough":
        return rng.choice(LENS_BIG + [100000, 131072, 200001])
    return rng.choice(LENS_BIG[:6])


def pick_max_symbol(rng, width, cap=None):
    cands = [0, 1, 2, 3, 4, 5, 15, 16, 17, 63, 64, 65, 255]
    if width >= 16:
        cands += [256, 257, 1023, 4095, 4096, 65535]
    if width >= 32:
        cands += [65536, 2 ** 20, 2 ** 31, 2 ** 32 - 1]
    if width >= 64:
        cands += [2 ** 32, 2 ** 33 + 5, 2 ** 48, 2 ** 63, 2 ** 64 - 1, 2 ** 50 - 1, 2 ** 53 - 1, 2 ** 56 - 2, 2 ** 62 - 1, 2 ** 63 - 1]
    if width >= 128:
        cands += [2 ** 64, 2 ** 64 + 3, 2 ** 100, 2 ** 127, 2 ** 128 - 1]
    if cap is not None:
        cands = [c for c in cands if c <= cap]
    return rng.choice(cands)


def gen_alphabet(rng, maxsym, style=None):
    """symbols actually used; always contains maxsym"""
    style = style or rng.choice(["dense", "holes", "few", "two", "one"])
    if maxsym == 0 or style == "one":
        return [maxsym], "one"
    if style == "two":
        return sorted(set([rng.randrange(0, maxsym + 1), maxsym])), "two"
    if style == "dense" and maxsym <= 300:
        return list(range(maxsym + 1)), "dense"
    k = rng.choice([3, 4, 5, 7, 16, 17, 40]) if style != "few" else rng.choice([3, 4, 5])
    s = set([maxsym])
    for _ in range(k):
        s.add(rng.randrange(0, maxsym + 1))
    if rng.random() < 0.5:
        s.add(0)
    return sorted(s), ("holes" if style != "few" else "few")


def gen_seq(rng, n, alphabet, mix=None):
    mix = mix or rng.choice(["uniform", "geometric", "runs", "periodic", "rare", "constant", "fib"])
    a = list(alphabet)
    if n == 0:
        return [], mix
    if mix == "constant" or len(a) == 1:
        s = [a[-1]] * n
    elif mix == "uniform":
        s = [rng.choice(a) for _ in range(n)]
    elif mix == "geometric":
        rng.shuffle(a)
        s = []
        for _ in range(n):
            j = 0
            while j < len(a) - 1 and rng.random() < 0.5:
                j += 1
            s.append(a[j])
    elif mix == "fib":
        # strongly skewed weights: deep prefix codes
        rng.shuffle(a)
        wts = [3 ** min(i, 30) for i in range(len(a))]
        s = rng.choices(a, weights=wts, k=n)
    elif mix == "runs":
        s = []
        while len(s) < n:
            c = rng.choice(a)
            s += [c] * rng.choice([1, 2, 5, 100, 300, 1000, 5000])
        s = s[:n]
    elif mix == "periodic":
        p = rng.choice([1, 2, 3, 4, 5, 7, 256, 257])
        s = [a[(i // p) % len(a)] for i in range(n)]
    else:  # rare
        c = rng.choice(a)
        r = rng.choice(a)
        s = [c] * n
        for _ in range(rng.choice([1, 1, 2, 3])):
            s[rng.randrange(n)] = r
    # the maximum symbol must occur (it defines sigma)
    if alphabet[-1] not in s:
        s[rng.randrange(n)] = alphabet[-1]
    return s, mix


def wrap_args(rng, n):
    """arguments that only a wrapped computation (i * 2, i * 4, i + 1, i + n, a cast to a narrower integer) maps back
    into the structure: around 2^63, 2^62, 2^32, 2^31 and just below 2^64"""
    out = set()
    for base in (2 ** 63, 2 ** 62, 2 ** 32, 2 ** 31, 2 ** 64 - 1 - n, 2 ** 63 + 2 ** 62, 2 ** 33):
        for off in (0, 1, n, max(n - 1, 0), rng.randrange(n + 1)):
            if 0 <= base + off <= MAXU:
                out.add(base + off)
    return sorted(out)


def tree_queries(c, rng, seq, width, family, sweep=True, nsyms=6, extra_ops=()):
    """checked queries over the whole argument domain"""
    n = len(seq)
    tmax = 2 ** width - 1
    present = sorted(set(seq))
    mx = present[-1] if present else 0
    syms = set()
    if present:
        syms.update(rng.sample(present, min(len(present), nsyms)))
        syms.add(mx)
        syms.add(present[0])
    # absent symbols inside the range, just above, far above
    for cand in [0, 1, 2, 3, 4, mx + 1, mx + 2, mx + 4, 255, 256, tmax, tmax - 1, (mx * 4 + 1), (mx | 3) + 1]:
        if 0 <= cand <= tmax and (cand not in present) and rng.random() < 0.6:
            syms.add(cand)
    if mx > 2:
        for _ in range(3):
            x = rng.randrange(0, mx)
            if x not in present:
                syms.add(x)
    c.add("Q len")
    c.add("Q isempty")
    c.add("Q nlevels")
    if family == "q":
        c.add("Q sigma")
    c.add("Q getall" if sweep else "Q get %d" % (rng.randrange(n) if n else 0))
    c.add("Q get %d" % MAXU)
    c.add("Q get %d" % (n + 7))
    wa = wrap_args(rng, n)
    for a in rng.sample(wa, min(len(wa), 8)):
        c.add("Q get %d" % a)
    for s in sorted(syms)[:3]:
        for a in rng.sample(wa, min(len(wa), 4)):
            c.add("Q rank %d %d" % (s, a))
            c.add("Q select %d %d" % (s, a))
    for s in sorted(syms):
        occ = seq.count(s)
        if sweep:
            c.add("Q rankall %d" % s)
            c.add("Q selectall %d %d" % (s, occ + 1))
        else:
            for i in sorted(set([0, n, n + 1] + [rng.randrange(n + 1) for _ in range(4)])):
                c.add("Q rank %d %d" % (s, i))
            for k in sorted(set([0, occ, occ + 1] + ([occ - 1] if occ else []) + [rng.randrange(occ + 1) for _ in range(3)])):
                c.add("Q select %d %d" % (s, k))
        c.add("Q rank %d %d" % (s, MAXU))
        c.add("Q select %d %d" % (s, MAXU))
        c.add("Q select %d %d" % (s, MAXU - 1))
        for op in extra_ops:
            c.add("Q %s %d" % (op, s))
    return sorted(syms)


def new_line(kind, elem, path, vals):
    return "NEW %s %s %s %d %s" % (kind, elem, path, len(vals), " ".join(map(str, vals)))


def bits_line(kind, path, bits):
    return "NEW %s - %s %d %s" % (kind, path, len(bits), "".join("1" if b else "0" for b in bits) or "-")


# ------------------------------------------------------------------------------------
def gen_quad_seq(rng, n):
    mix = rng.choice(["uniform", "runs", "periodic", "rare", "constant", "skew"])
    if mix == "skew":
        s = rng.choices([0, 1, 2, 3], weights=[1, 3, 9, 27], k=n)
        rng.shuffle(s)
        return s, mix
    s, mix = gen_seq(rng, n, [0, 1, 2, 3] if mix != "constant" else [rng.randrange(4)], mix)
    return s, mix


def gen_bits(rng, n):
    mix = rng.choice(["uniform", "sparse", "dense", "runs", "zeros", "ones", "alt", "blocks"])
    if mix == "zeros":
        b = [0] * n
    elif mix == "ones":
        b = [1] * n
    elif mix == "uniform":
        b = [rng.randrange(2) for _ in range(n)]
    elif mix == "sparse":
        p = rng.choice([0.001, 0.01, 0.05])
        b = [1 if rng.random() < p else 0 for _ in range(n)]
    elif mix == "dense":
        p = rng.choice([0.999, 0.99, 0.95])
        b = [1 if rng.random() < p else 0 for _ in range(n)]
    elif mix == "alt":
        b = [i & 1 for i in range(n)]
    elif mix == "blocks":
        b = []
        while len(b) < n:
            b += [rng.randrange(2)] * rng.choice([64, 512, 4096, 1000])
        b = b[:n]
    else:
        b = []
        v = rng.randrange(2)
        while len(b) < n:
            b += [v] * rng.choice([1, 3, 63, 64, 65, 500, 1024, 3000])
            v ^= 1
        b = b[:n]
    return b, mix
