#!/usr/bin/env python3
"""T3: regenerate the integer leaf functions of the model from the Rust source.

    python3 tools/gen_leaves.py [--repo /repo] [--group G] [--out coq/theories/Gen/Leaves<G>.v]

reads the current sources and writes one Gallina definition per function of TARGETS below (of the group G
of GROUPS: utils, line, sb, rsn, rsw, qv; file rewritten only when its content changes).
Proofs/Leaves<G>Ok.v then proves each generated definition equal to the hand-written model of
Model/Words.v / Model/RSQ.v / Model/RSBin.v / Model/QVec.v, so the theorems about the hand model are
re-checked against what the code says NOW.

The translation is semantic and typed, and does not look at the hand model.  What is TRUSTED:

Rust subset (anything else: exit 2 with a message naming the function and the construct)
  items   free `fn`, methods of `impl [Trait for] Type` taking `&self` / `&mut self` of a `struct Type { .. }`
          with named fields.  Each field the function uses (itself or through a `self.m(..)` it calls) becomes a
          parameter, in declaration order, before the function's own parameters: `[uN; K]`, `Box<[uN]>`,
          `Vec<uN>` -> `list N`; `uN` / `bool` -> `N` / `bool`; named after the field (`ws` when the struct has
          that single field).  Fields of any other type may exist but must not be used; unused fields are not
          passed.  A `&mut self` method must use exactly one `[uN; K]` field and returns its new value.
          Generic integer parameter `<T>` only by monomorphisation (TARGETS gives T); associated consts
          `Self::C` (scalar or array); file-level `const NAME: uN = <const expr>;` (literals, other file-level
          consts, + - * / % & | ^ << >>; evaluated here, overflow / division by zero = error); file-level const
          arrays named in STATIC_TABLES (K_SELECT_IN_BYTE -> Gen/SelTable.v: sel_table).
  types   u8 u16 u32 u64 u128 usize(=64 bits) bool, tuples of these; no signed integers, no references.
  stmts   `let [mut] x [: T] = e;`  `let (a, b) = e;`  `x = e;`  `x op= e;`  `self.f[i] = e;`
          `self.f[i] op= e;`  `if c { ..; return e; }`  `return e;`  `debug_assert!(c[, "msg"]);`
          `assert!(c[, "msg"]);`  tail expression.  Assignment only at the nesting level of the `let`, except
          `if c { x op= e; .. }` without `else` whose block contains only lets, assertions and assignments to
          variables of the enclosing block (conditional reassignment).
  exprs   integer literals (dec/hex/bin/oct, `_`, type suffix), true/false, variables, `( )`, tuples,
          unary `!`, `e as T`, binary `* / % + - << >> & ^ | == != < <= > >= && ||` with Rust precedence
          (`as` binds tighter than `*`; comparisons do not chain), `if c { a } else { b }`, `{ .. }`,
          `unsafe { .. }` (transparent), `x.count_ones()`, `x.leading_zeros()`, `x.wrapping_mul/add/sub(y)`,
          `uN::MAX`, `T::zero()`, `T::one()`, `std::mem::size_of::<T>()`, `self.f[e]`,
          `*self.f.get_unchecked(e)`, `self.f` (scalar field), `Self::C`, `NAME` (file-level integer const),
          `Self::ARR[e]`, `TABLE[e]`, calls `f(..)` / `self.m(..)` to functions translated earlier in TARGETS.

Typing  parameters, `let x: T`, casts and literal suffixes are annotated; an unsuffixed literal takes the type
        of the other operand, else of its context (let annotation, return type, callee parameter, index =
        usize); `let` takes the type of its initialiser; count_ones/leading_zeros : u32.  Both operands of
        an arithmetic/bitwise/comparison operator must get the same type, an index must be usize; a literal
        whose type is not determined this way is an error (never defaulted), as is a literal out of range.
        Two exceptions, both what rustc infers: `let [mut] x = <unsuffixed literal>;` takes the type of the
        right side of the first later `x = e;` / `x op= e;` of the same block (else the type the block must
        have when it ends in `x`), and every use of x is then checked against that type as usual; a shift
        amount made only of unsuffixed literals and + - * (`x >> (128 - 44)`) is an i32 constant (integer
        fallback), evaluated here (error outside 0 .. 2^31-1) and treated as a literal amount.

Semantics at width w of the operand type (Base/Outcome.v, Base/ListX.v; `let!` = bind of the outcome monad)
  a + b -> oadd w a b      a * b -> omul w a b     a - b -> osub a b      (Fault Overflow when out of range)
  a << b, a >> b -> oshl w a b, oshr w a b  (amount >= w: Fault Overflow); with a literal amount n < w the
        same value without the test: (N.shiftl a n) mod 2^w, N.shiftr a n
  a / b, a % b -> Fault Panic when b = 0 (divisor a non-zero constant expression, i.e. literals and integer
        consts combined with + - * / %: plain N./ and mod by the expression as written)
  & | ^ -> N.land N.lor N.lxor (andb orb xorb on bool)    !a -> N.lxor a (2^w - 1) (negb on bool)
  e as uN -> e mod 2^N, omitted when the source type is not wider; bool as uN -> if b then 1 else 0
  == != < <= > >= -> N.eqb negb(N.eqb) N.ltb N.leb (flipped for > >=);  && || -> andb orb, operands fault-free
  x.count_ones() -> popcount x (Model/Words.v)   x.leading_zeros() -> clz w x = w - N.size x
  x.wrapping_mul(y) -> (x * y) mod 2^w   wrapping_add -> (x + y) mod 2^w   wrapping_sub -> (x + 2^w - y) mod 2^w
  uN::MAX -> 2^N - 1    size_of::<uN>() -> N/8    consts: evaluated here with overflow = error
  self.f[e], Self::ARR[e], TABLE[e] -> idx l e (Fault Panic out of range)
  *self.f.get_unchecked(e) -> uidx ws e (Fault UB out of range)      self.f (scalar) -> the parameter f
  NAME (file-level const) -> its value
  if c { x op= e; } -> let! x := (if c then let! x := .. in Val x else Val x) in   (several variables: a tuple;
        `let x := if c then v else x in` when the block cannot fault)
  self.f[e] op= v -> v, then e, then `idx ws e`, then ws := setN ws e (old op v)   (Rust evaluates the right
        operand of a compound assignment on primitives first)
  debug_assert!(c) -> odebug_assert c (Fault DebugAssert)   assert!(c) -> oassert c (Fault Panic)
  operands are evaluated left to right, every operation that can fault is bound with `let!` in that order;
  `let mut` / reassignment / shadowing -> Gallina shadowing; a `&mut self` method returns the new words.
  Values are N without range: a definition means the Rust function only on arguments within the parameter
  types (the *_ok theorems carry these bounds) and on words `ws` below 2^width.
"""
import argparse, os, re, sys, time

INT = {"u8": 8, "u16": 16, "u32": 32, "u64": 64, "u128": 128, "usize": 64}

# (source file, impl self type or None, fn, Coq name, {generic: type})  -- order matters: callees first
TARGETS = [
    ("src/utils/mod.rs", None, "select_in_word", "g_select_in_word", {}),
    ("src/utils/mod.rs", None, "select_in_word_u128", "g_select_in_word_u128", {}),
    ("src/utils/mod.rs", None, "msb", "g_msb_u8", {"T": "u8"}),
    ("src/utils/mod.rs", None, "msb", "g_msb_u16", {"T": "u16"}),
    ("src/utils/mod.rs", None, "msb", "g_msb_u32", {"T": "u32"}),
    ("src/utils/mod.rs", None, "msb", "g_msb_u64", {"T": "u64"}),
    ("src/utils/mod.rs", None, "msb", "g_msb_u128", {"T": "u128"}),
    ("src/qvector/mod.rs", "DataLine", "normalize", "g_qline_normalize", {}),
    ("src/qvector/mod.rs", "DataLine", "set_symbol", "g_qline_set_symbol", {}),
    ("src/qvector/mod.rs", "DataLine", "get_unchecked", "g_qline_get_unchecked", {}),
    ("src/qvector/mod.rs", "DataLine", "rank_unchecked", "g_qline_rank_unchecked", {}),
    ("src/qvector/rs_qvector/rs_support_plain.rs", "SuperblockPlain", "get_rank", "g_sb_get_rank", {}),
    ("src/qvector/rs_qvector/rs_support_plain.rs", "SuperblockPlain", "get_superblock_counter",
     "g_sb_get_superblock_counter", {}),
    ("src/bitvector/rs_narrow.rs", "RSNarrow", "block_rank", "g_rsn_block_rank", {}),
    ("src/bitvector/rs_narrow.rs", "RSNarrow", "sub_block_ranks", "g_rsn_sub_block_ranks", {}),
    ("src/bitvector/rs_narrow.rs", "RSNarrow", "sub_block_rank", "g_rsn_sub_block_rank", {}),
    ("src/bitvector/rs_wide.rs", "RSWide", "superblock_rank", "g_rsw_superblock_rank", {}),
    ("src/bitvector/rs_wide.rs", "RSWide", "sub_block_rank", "g_rsw_sub_block_rank", {}),
    ("src/qvector/mod.rs", "QVector", "len", "g_qv_len", {}),
    ("src/qvector/mod.rs", "QVector", "is_empty", "g_qv_is_empty", {}),
]
STATIC_TABLES = {"K_SELECT_IN_BYTE": "sel_table"}
WORDS = "ws"  # Coq name of the array field of self when the struct has no other field
RESERVED = set("""in let fun if then else match with end as return forall exists fix cofix Type Prop Set at using
    where for mod N Val Fault Panic UB Overflow DebugAssert bind idx uidx setN osub oadd omul oshl oshr oassert
    odebug_assert popcount clz sel_table negb andb orb xorb true false tt list outcome""".split()) | {WORDS}


class Unsupported(Exception):
    pass


# ------------------------------------------------------------------------------ tokenizer
TOKEN_RE = re.compile(r"""
   (?P<ws>\s+|//[^\n]*|/\*.*?\*/)
 | (?P<int>(?:0x[0-9a-fA-F_]+|0b[01_]+|0o[0-7_]+|[0-9][0-9_]*)(?:[ui](?:8|16|32|64|128|size))?)
 | (?P<id>[A-Za-z_][A-Za-z0-9_]*)
 | (?P<str>"(?:[^"\\]|\\.)*")
 | (?P<chr>'(?:[^'\\]|\\.[^']*)')
 | (?P<op><<=|>>=|\.\.=|<<|>>|<=|>=|==|!=|&&|\|\||\+=|-=|\*=|/=|%=|\|=|&=|\^=|->|=>|::|\.\.|.)
""", re.X | re.S)


class Tok:
    __slots__ = ("kind", "text", "line", "pos")

    def __init__(self, kind, text, line, pos):
        self.kind, self.text, self.line, self.pos = kind, text, line, pos


def tokenize(src):
    toks, pos, line = [], 0, 1
    while pos < len(src):
        m = TOKEN_RE.match(src, pos)
        if m.lastgroup != "ws":
            toks.append(Tok(m.lastgroup, m.group(), line, pos))
        line += m.group().count("\n")
        pos = m.end()
    toks.append(Tok("eof", "<eof>", line, pos))
    return toks


def match_close(toks, i):
    """index of the bracket closing toks[i] (one of ( [ { )"""
    pairs = {"(": ")", "[": "]", "{": "}"}
    stack = []
    while toks[i].kind != "eof":
        t = toks[i].text if toks[i].kind == "op" else None
        if t in pairs:
            stack.append(pairs[t])
        elif t in (")", "]", "}"):
            if not stack or stack.pop() != t:
                break
            if not stack:
                return i
        i += 1
    raise Unsupported("unbalanced brackets near line %d" % toks[i].line)


def scan_items(toks):
    """locate fns / consts / structs at file level and inside impl blocks (not inside mod/trait)"""
    items = {"fn": {}, "const": {}, "struct": {}}

    def is_op(i, s):
        return toks[i].kind == "op" and toks[i].text == s

    def find_open(i):  # first '{' or ';' at paren depth 0 from i
        while toks[i].kind != "eof":
            if is_op(i, "(") or is_op(i, "["):
                i = match_close(toks, i)
            elif is_op(i, "{") or is_op(i, ";"):
                return i
            i += 1
        return i

    def scan(i, end, owner):
        while i < end:
            t = toks[i]
            if is_op(i, "#"):
                j = i + 2 if is_op(i + 1, "!") else i + 1
                i = match_close(toks, j) + 1 if is_op(j, "[") else i + 1
            elif t.kind == "id" and t.text == "impl" and owner is None:
                j = find_open(i)
                hdr = [x.text for x in toks[i + 1:j]]
                depth, flat = 0, []
                for x in hdr:  # drop generic arguments
                    if x == "<":
                        depth += 1
                    elif x == ">":
                        depth -= 1
                    elif x == ">>":
                        depth -= 2
                    elif depth == 0:
                        flat.append(x)
                flat = flat[:flat.index("where")] if "where" in flat else flat
                selfty = flat[flat.index("for") + 1] if "for" in flat else (flat[0] if flat else None)
                k = match_close(toks, j)
                scan(j + 1, k, selfty)
                i = k + 1
            elif t.kind == "id" and t.text == "fn":
                j = find_open(i)
                items["fn"].setdefault((owner, toks[i + 1].text), []).append(i)
                i = (match_close(toks, j) if is_op(j, "{") else j) + 1
            elif t.kind == "id" and t.text == "const" and toks[i + 1].kind == "id" and is_op(i + 2, ":"):
                items["const"][(owner, toks[i + 1].text)] = i
                i = find_open(i) + 1
            elif t.kind == "id" and t.text == "struct" and owner is None:
                j = find_open(i)
                if is_op(j, "{"):
                    items["struct"][toks[i + 1].text] = j
                    i = match_close(toks, j) + 1
                else:
                    i = j + 1
            elif is_op(i, "{"):
                i = match_close(toks, i) + 1
            else:
                i += 1

    scan(0, len(toks) - 1, None)
    return items


# ------------------------------------------------------------------------------ parser
BINPREC = {"||": 1, "&&": 2, "==": 3, "!=": 3, "<": 3, ">": 3, "<=": 3, ">=": 3, "|": 4, "^": 5, "&": 6,
           "<<": 7, ">>": 7, "+": 8, "-": 8, "*": 9, "/": 9, "%": 9}
CMP = ("==", "!=", "<", ">", "<=", ">=")
ASSIGN = ("=", "+=", "-=", "*=", "/=", "%=", "|=", "&=", "^=", "<<=", ">>=")
CASTPREC = 10


class Parser:
    """tokens -> tuples.  exprs: (lit v suffix) (bool b) (var x) (self) (path segs generics) (un op e)
    (bin op a b) (cast e ty) (mcall recv name args) (call segs generics args) (field e name) (index e i)
    (tuple es) (array es) (if c blk blk|None) (block stmts tail).  stmts: (let pat ty e) (assign lhs op e)
    (macro name cond) (return e|None) (expr e).  pat: name | [names]"""

    def __init__(self, toks, i, where, subst):
        self.t, self.i, self.where, self.subst = toks, i, where, subst

    def fail(self, what):
        t = self.t[self.i]
        ctx = " ".join(x.text for x in self.t[max(0, self.i - 4): self.i + 4])
        raise Unsupported("%s: unsupported %s at line %d near `%s`" % (self.where, what, t.line, ctx))

    def peek(self, k=0):
        return self.t[self.i + k]

    def at(self, s, k=0):
        t = self.t[self.i + k]
        return t.kind in ("op", "id") and t.text == s

    def accept(self, s):
        if self.at(s):
            self.i += 1
            return True
        return False

    def expect(self, s):
        if not self.accept(s):
            self.fail("syntax (expected `%s`)" % s)

    def ident(self):
        t = self.peek()
        if t.kind != "id":
            self.fail("syntax (expected identifier)")
        self.i += 1
        return t.text

    def type(self):
        if self.accept("("):
            ts = []
            while not self.at(")"):
                ts.append(self.type())
                if not self.accept(","):
                    break
            self.expect(")")
            if not ts:
                return "unit"
            return ("tuple", tuple(ts)) if len(ts) > 1 else ts[0]
        if self.accept("["):
            el = self.type()
            self.expect(";")
            n = self.expr()
            self.expect("]")
            if n[0] != "lit":
                self.fail("array length (literal expected)")
            return ("array", el, n[1])
        if self.peek().kind == "id":
            name = self.subst.get(self.peek().text, self.peek().text)
            if name in INT or name == "bool":
                self.i += 1
                return name
        self.fail("type `%s`" % self.peek().text)

    def fn(self):
        self.expect("fn")
        name = self.ident()
        if self.accept("<"):
            while not self.accept(">"):
                g = self.ident()
                if g not in self.subst:
                    self.fail("generic parameter `%s` (no instantiation given)" % g)
                self.accept(",")
        self.expect("(")
        selfkind, params = None, []
        while not self.at(")"):
            if self.accept("&"):
                selfkind = "mut" if self.accept("mut") else "ref"
                self.expect("self")
            elif self.at("self"):
                self.fail("by-value `self`")
            else:
                self.accept("mut")
                p = self.ident()
                self.expect(":")
                params.append((p, self.type()))
            if not self.accept(","):
                break
        self.expect(")")
        ret = self.type() if self.accept("->") else "unit"
        if self.at("where"):
            while not self.at("{"):
                self.i += 1
        return name, selfkind, params, ret, self.block()

    def block(self):
        self.expect("{")
        stmts, tail = [], None
        while not self.accept("}"):
            if tail is not None:
                self.fail("syntax (expression not at the end of a block)")
            t = self.peek()
            if t.kind == "id" and t.text in ("for", "while", "loop", "match", "break", "continue"):
                self.fail("`%s`" % t.text)
            if self.accept("let"):
                self.accept("mut")
                if self.accept("("):
                    pat = []
                    while not self.at(")"):
                        self.accept("mut")
                        pat.append(self.ident())
                        if not self.accept(","):
                            break
                    self.expect(")")
                else:
                    pat = self.ident()
                ty = self.type() if self.accept(":") else None
                self.expect("=")
                stmts.append(("let", pat, ty, self.expr()))
                self.expect(";")
            elif self.accept("return"):
                stmts.append(("return", None if self.at(";") or self.at("}") else self.expr()))
                self.accept(";")
                if not self.at("}"):
                    self.fail("statement after `return`")
            elif t.kind == "id" and self.at("!", 1):
                if t.text not in ("debug_assert", "assert"):
                    self.fail("macro `%s!`" % t.text)
                self.i += 2
                self.expect("(")
                cond = self.expr()
                if self.accept(","):
                    if self.peek().kind != "str" or "{" in self.peek().text:
                        self.fail("%s! message with format arguments" % t.text)
                    self.i += 1
                    self.accept(",")
                self.expect(")")
                self.accept(";")
                stmts.append(("macro", t.text, cond))
            else:
                e = self.expr()
                if self.peek().kind == "op" and self.peek().text in ASSIGN:
                    op = self.peek().text
                    self.i += 1
                    stmts.append(("assign", e, op[:-1] or None, self.expr()))
                    self.expect(";")
                elif self.at("}"):
                    tail = e
                elif e[0] in ("if", "block"):
                    self.accept(";")
                    stmts.append(("expr", e))
                else:
                    self.fail("expression statement")
        return ("block", stmts, tail)

    def expr(self, minp=1):
        lhs = self.unary()
        while True:
            t = self.peek()
            if t.kind == "id" and t.text == "as" and CASTPREC >= minp:
                self.i += 1
                lhs = ("cast", lhs, self.type())
            elif t.kind == "op" and t.text in BINPREC and BINPREC[t.text] >= minp:
                self.i += 1
                rhs = self.expr(BINPREC[t.text] + 1)
                if t.text in CMP and self.peek().kind == "op" and self.peek().text in CMP:
                    self.fail("chained comparison")
                lhs = ("bin", t.text, lhs, rhs)
            else:
                return lhs

    def unary(self):
        if self.accept("!"):
            return ("un", "!", self.unary())
        if self.accept("*"):
            return ("un", "*", self.unary())
        if self.at("-") or self.at("&") or self.at("&&"):
            self.fail("unary `%s`" % self.peek().text)
        e = self.primary()
        while True:
            if self.accept("."):
                name = self.ident()
                e = ("mcall", e, name, self.args()) if self.at("(") else ("field", e, name)
            elif self.accept("["):
                e = ("index", e, self.expr())
                self.expect("]")
            elif self.at("?"):
                self.fail("`?`")
            else:
                return e

    def args(self):
        self.expect("(")
        a = []
        while not self.at(")"):
            a.append(self.expr())
            if not self.accept(","):
                break
        self.expect(")")
        return a

    def primary(self):
        t = self.peek()
        if t.kind == "int":
            self.i += 1
            m = re.fullmatch(r"(.*?)_*((?:[ui](?:8|16|32|64|128|size))?)", t.text)
            body, suf = m.group(1).replace("_", ""), m.group(2) or None
            if suf and suf not in INT:
                self.fail("signed literal `%s`" % t.text)
            v = int(body, 16 if body[:2] == "0x" else 2 if body[:2] == "0b" else 8 if body[:2] == "0o" else 10)
            return ("lit", v, suf, body if body[:2] == "0x" else str(v))
        if t.kind in ("str", "chr"):
            self.fail("string/char literal")
        if self.accept("("):
            es = []
            while not self.at(")"):
                es.append(self.expr())
                if not self.accept(","):
                    break
            trailing = self.t[self.i - 1].text == ","
            self.expect(")")
            if len(es) == 1 and not trailing:
                return es[0]
            if len(es) < 2:
                self.fail("unit / 1-tuple expression")
            return ("tuple", es)
        if self.accept("["):
            es = []
            while not self.at("]"):
                es.append(self.expr())
                if not self.accept(","):
                    break
            self.expect("]")
            return ("array", es)
        if self.accept("if"):
            c = self.expr()
            th = self.block()
            el = None
            if self.accept("else"):
                el = ("block", [], self.primary()) if self.at("if") else self.block()
            return ("if", c, th, el)
        if self.accept("unsafe"):
            return self.block()
        if self.at("{"):
            return self.block()
        if self.accept("true"):
            return ("bool", True)
        if self.accept("false"):
            return ("bool", False)
        if self.accept("self"):
            return ("self",)
        if t.kind == "id":
            if t.text in ("match", "loop", "while", "for", "move", "return", "break", "continue"):
                self.fail("`%s` expression" % t.text)
            segs, gens = [self.subst.get(self.ident(), t.text)], []
            while self.accept("::"):
                if self.accept("<"):
                    while not self.accept(">"):
                        gens.append(self.type())
                        self.accept(",")
                else:
                    segs.append(self.ident())
            if self.at("!"):
                self.fail("macro `%s!` in expression" % segs[-1])
            if self.at("("):
                return ("call", segs, gens, self.args())
            if self.at("{") and segs[-1][:1].isupper() and len(segs[-1]) > 1 and not segs[-1].isupper():
                self.fail("struct literal")
            return ("var", segs[0]) if len(segs) == 1 and not gens else ("path", segs, gens)
        self.fail("token `%s`" % t.text)


# ------------------------------------------------------------------------------ typing + emission
def paren(s):
    return s if re.fullmatch(r"[A-Za-z0-9_.']+|\((?:[^()]|\([^()]*\))*\)|\[[^\[\]]*\]", s) else "(" + s + ")"


def app(f, *args):
    return f + " " + " ".join(paren(a) for a in args)


def pow2(w):
    return "2 ^ %d" % w


class Sig:
    def __init__(self, coq, selfkind, params, ret, fields=()):
        self.coq, self.selfkind, self.params, self.ret, self.fields = coq, selfkind, params, ret, list(fields)


class Cx:
    """emission context of one block: env rust name -> (coq name, type, depth); lines emitted so far"""

    def __init__(self, tr, env, depth):
        self.tr, self.env, self.depth, self.lines = tr, dict(env), depth, []

    def bind(self, name, ty):
        coq = name + "_" if name in RESERVED or name in self.tr.sigs_coq or name in self.tr.field_coq.values() else name
        self.env[name] = (coq, ty, self.depth)
        return coq


class FnTranslator:
    def __init__(self, unit, owner, fname, coq, subst, sigs):
        self.unit, self.owner, self.fname, self.coq = unit, owner, fname, coq
        self.where = "%s: fn %s%s" % (unit.rel, (owner + "::") if owner else "", fname)
        self.sigs = sigs  # (rel, owner, name) -> Sig of already translated functions
        self.sigs_coq = {s.coq for s in sigs.values()}
        starts = unit.items["fn"].get((owner, fname), [])
        if len(starts) != 1:
            raise Unsupported("%s: %s" % (self.where, "not found" if not starts else "ambiguous (%d definitions)" % len(starts)))
        self.subst = subst
        p = Parser(unit.toks, starts[0], self.where, subst)
        _, self.selfkind, self.params, self.ret, self.body = p.fn()
        body_open = next(j for j in range(starts[0], p.i) if unit.toks[j].kind == "op" and unit.toks[j].text == "{")
        self.header = " ".join(unit.src[unit.toks[starts[0]].pos:unit.toks[body_open].pos].split())
        self.used = {t.text for t in unit.toks[starts[0]:p.i] if t.kind == "id"}
        self.ntmp = 0
        self.fields, self.field_coq, self.used_fields = {}, {}, []
        if self.selfkind:
            fl = unit.self_fields(owner, self.where)
            self.fields = dict(fl)  # field name -> kind
            direct, via = set(), set()
            self.scan_fields(self.body, direct, via)
            for m in via:
                if (unit.rel, owner, m) in sigs:
                    direct |= set(sigs[(unit.rel, owner, m)].fields)
            self.used_fields = [n for n, _ in fl if n in direct]
            for n in self.used_fields:
                if self.fields[n][0] == "opaque":
                    self.fail("field `self.%s` of type `%s`" % (n, self.fields[n][1]))
                coq = WORDS if len(fl) == 1 and self.fields[n][0] != "scalar" else n
                while coq != WORDS and (coq in RESERVED or coq in self.sigs_coq):
                    coq += "_"
                self.field_coq[n] = coq

    def fail(self, what):
        raise Unsupported("%s: unsupported %s" % (self.where, what))

    def scan_fields(self, e, direct, via):
        """names f of every `self.f` in the syntax tree e (direct) and m of every `self.m(..)` (via)"""
        if isinstance(e, (tuple, list)):
            if len(e) == 3 and e[0] == "field" and e[1] == ("self",):
                direct.add(e[2])
            if len(e) == 4 and e[0] == "mcall" and e[1] == ("self",):
                via.add(e[2])
            for x in e:
                self.scan_fields(x, direct, via)

    def fresh(self):
        while True:
            self.ntmp += 1
            n = "t%d" % self.ntmp
            if n not in self.used and n not in RESERVED:
                return n

    # ---- types (pure function of expression, expected type, env) ----
    def is_self_field(self, e, kinds=("array", "slice")):
        """e is `self.f` for a field f of one of the kinds: (coq name of the parameter, element/scalar type)"""
        if e[0] == "field" and e[1] == ("self",) and e[2] in self.field_coq and self.fields[e[2]][0] in kinds:
            return self.field_coq[e[2]], self.fields[e[2]][1]
        return None

    def const_array(self, e):
        """('path'|'var') naming a const array -> (coq list term, elem type) or None"""
        if e[0] == "path" and len(e[1]) == 2 and e[1][0] == "Self":
            c = self.unit.const(self.owner, e[1][1], self.where)
        elif e[0] == "var" and (None, e[1]) in self.unit.items["const"]:
            c = self.unit.const(None, e[1], self.where)
        else:
            return None
        if not (isinstance(c[0], tuple) and c[0][0] == "array"):
            return None
        if e[0] == "var" and e[1] in STATIC_TABLES:
            return STATIC_TABLES[e[1]], c[0][1]
        if c[1] is None or len(c[1]) > 16:
            self.fail("const array `%s` (too long to inline and not in STATIC_TABLES)" % e[1][-1])
        return "[" + "; ".join(fmt_const(v, c[0][1]) for v in c[1]) + "]", c[0][1]

    def ty(self, e, exp, env):
        k = e[0]
        if k == "lit":
            return e[2] or (exp if isinstance(exp, str) and exp in INT else None)
        if k == "term":
            return e[2]
        if k == "bool":
            return "bool"
        if k == "var":
            if e[1] in env:
                return env[e[1]][1]
            if (None, e[1]) in self.unit.items["const"] and e[1] not in STATIC_TABLES:
                t = self.unit.const(None, e[1], self.where)[0]
                if t in INT:
                    return t
            self.fail("name `%s` (not a local variable or an integer const of the file)" % e[1])
        if k == "field":
            f = self.is_self_field(e, ("scalar",))
            if f:
                return f[1]
            self.fail("field access `.%s` as a value (only scalar integer/bool fields of self)" % e[2])
        if k == "path":
            segs = e[1]
            if len(segs) == 2 and segs[0] in INT and segs[1] == "MAX":
                return segs[0]
            if len(segs) == 2 and segs[0] == "Self":
                t = self.unit.const(self.owner, segs[1], self.where)[0]
                if t in INT:
                    return t
            self.fail("path `%s`" % "::".join(segs))
        if k == "un":
            if e[1] == "!":
                return self.ty(e[2], exp, env)
            if e[2][0] == "mcall" and e[2][2] == "get_unchecked" and self.is_self_field(e[2][1]):
                return self.is_self_field(e[2][1])[1]
            self.fail("dereference (only `*self.f.get_unchecked(e)` on an integer array/slice field f)")
        if k == "cast":
            return e[2]
        if k == "bin":
            if e[1] in CMP or e[1] in ("&&", "||"):
                return "bool"
            if e[1] in ("<<", ">>"):
                return self.ty(e[2], exp, env)
            return self.ty(e[2], exp, env) or self.ty(e[3], exp, env)
        if k == "mcall":
            if e[2] in ("count_ones", "leading_zeros"):
                return "u32"
            if e[2] in ("wrapping_mul", "wrapping_add", "wrapping_sub") and len(e[3]) == 1:
                return self.ty(e[1], exp, env) or self.ty(e[3][0], exp, env)
            if e[1] == ("self",):
                return self.callee((self.unit.rel, self.owner, e[2]), e[2]).ret
            self.fail("method `.%s()`" % e[2])
        if k == "call":
            segs = e[1]
            if len(segs) == 2 and segs[0] in INT and segs[1] in ("zero", "one") and not e[3]:
                return segs[0]
            if segs[-1] == "size_of" and len(e[2]) == 1 and e[2][0] in INT and not e[3]:
                return "usize"
            if len(segs) == 1:
                return self.callee((self.unit.rel, None, segs[0]), segs[0]).ret
            self.fail("call `%s`" % "::".join(segs))
        if k == "index":
            if self.is_self_field(e[1]):
                return self.is_self_field(e[1])[1]
            ca = self.const_array(e[1])
            if ca:
                return ca[1]
            self.fail("indexing (only self.f[..] on an integer array/slice field, Self::ARRAY[..], TABLE[..])")
        if k == "tuple":
            exps = exp[1] if isinstance(exp, tuple) and exp[0] == "tuple" and len(exp[1]) == len(e[1]) else [None] * len(e[1])
            ts = [self.ty(x, t, env) for x, t in zip(e[1], exps)]
            return None if None in ts else ("tuple", tuple(ts))
        if k == "if":
            if e[3] is None:
                return "unit"
            return self.ty(e[2], exp, env) or self.ty(e[3], exp, env)
        if k == "block":
            env = dict(env)
            for n, s in enumerate(e[1]):
                if s[0] == "let":
                    self.let_types(s, env, lambda n, t: env.__setitem__(n, (n, t, -1)), (e[1][n + 1:], e[2], exp))
            return self.ty(e[2], exp, env) if e[2] is not None else "unit"
        self.fail("expression `%s`" % k)

    def later_type(self, name, rest, env):
        """type of `let name = <unsuffixed literal>;` from the statements after it in the same block: the first
        `name = e;` / `name op= e;` (op not a shift) whose right side has a determined type, else the type the
        block must have when its value is `name`.  Every use of `name` is then checked against that type."""
        stmts, tail, exp = rest
        env = dict(env)
        env.pop(name, None)
        for n, s in enumerate(stmts):
            if s[0] == "let":
                if name == s[1] or (isinstance(s[1], list) and name in s[1]):
                    return None
                self.let_types(s, env, lambda a, b: env.__setitem__(a, (a, b, -1)), (stmts[n + 1:], tail, exp))
            elif s[0] == "assign" and s[1] == ("var", name) and s[2] not in ("<<", ">>"):
                d, v = set(), set()
                self.scan_vars(s[3], d)
                if name not in d:
                    t = self.ty(s[3], None, env)
                    if t in INT:
                        return t
            elif s[0] == "return" and s[1] == ("var", name) and self.ret in INT:
                return self.ret
        if tail == ("var", name) and isinstance(exp, str) and exp in INT:
            return exp
        return None

    def scan_vars(self, e, acc):
        if isinstance(e, (tuple, list)):
            if len(e) == 2 and e[0] == "var":
                acc.add(e[1])
            for x in e:
                self.scan_vars(x, acc)

    def let_types(self, s, env, bind, rest=None):
        _, pat, ann, init = s
        t = ann or self.ty(init, None, env)
        if t is None and rest is not None and init[0] == "lit" and isinstance(pat, str):
            t = self.later_type(pat, rest, env)
        if t is None:
            self.fail("`let %s` without a determined type (unsuffixed literal)" % (pat,))
        if isinstance(pat, list):
            if not (isinstance(t, tuple) and t[0] == "tuple" and len(t[1]) == len(pat)):
                self.fail("tuple pattern `let (%s)` against type %s" % (", ".join(pat), t))
            for n, tn in zip(pat, t[1]):
                bind(n, tn)
        else:
            bind(pat, t)
        return t

    def callee(self, key, name):
        if key not in self.sigs:
            self.fail("call to `%s` (not a translated function)" % name)
        return self.sigs[key]

    def need(self, e, exp, env, want=None):
        t = self.ty(e, exp, env)
        if t is None:
            self.fail("literal whose type is not determined by its context")
        if want is not None and t != want:
            self.fail("type mismatch (%s where %s is required)" % (t, want))
        return t

    # ---- expressions: emit returns (term, pure?); a non-pure term has type outcome _ ----
    def val(self, e, exp, cx):
        s, pure = self.emit(e, exp, cx)
        if pure:
            return s
        t = self.fresh()
        cx.lines.append("let! %s := %s in" % (t, s))
        return t

    def emit(self, e, exp, cx):
        k, env = e[0], cx.env
        if k == "lit":
            t = self.need(e, exp, env)
            if e[1] >= 2 ** INT[t]:
                self.fail("literal %s out of range for %s" % (e[3], t))
            return e[3], True
        if k == "term":
            return e[1], True
        if k == "bool":
            return ("true" if e[1] else "false"), True
        if k == "var":
            t = self.ty(e, exp, env)
            if e[1] not in env:
                return fmt_const(self.unit.const(None, e[1], self.where)[1], t), True
            return env[e[1]][0], True
        if k == "path":
            t = self.ty(e, exp, env)
            if e[1][1] == "MAX" and e[1][0] in INT:
                return "%s - 1" % pow2(INT[t]), True
            return fmt_const(self.unit.const(self.owner, e[1][1], self.where)[1], t), True
        if k == "un" and e[1] == "!":
            t = self.need(e[2], exp, env)
            a = self.val(e[2], exp, cx)
            return (app("negb", a) if t == "bool" else app("N.lxor", a, "%s - 1" % pow2(INT[t]))), True
        if k == "un":
            self.ty(e, exp, env)
            if len(e[2][3]) != 1:
                self.fail("get_unchecked arity")
            self.need(e[2][3][0], "usize", env, "usize")
            return app("uidx", self.is_self_field(e[2][1])[0], self.val(e[2][3][0], "usize", cx)), False
        if k == "cast":
            src = self.ty(e[1], None, env)
            if src is None:
                self.fail("cast of an unsuffixed literal")
            a = self.val(e[1], None, cx)
            if e[2] not in INT:
                self.fail("cast to %s" % (e[2],))
            if src == "bool":
                return "if %s then 1 else 0" % a, True
            if src not in INT:
                self.fail("cast from %s" % (src,))
            return (a if INT[e[2]] >= INT[src] else "%s mod %s" % (paren(a), pow2(INT[e[2]]))), True
        if k == "bin":
            return self.emit_bin(e, exp, cx)
        if k == "mcall":
            if e[2] in ("count_ones", "leading_zeros"):
                if e[3]:
                    self.fail("arguments of .%s()" % e[2])
                t = self.need(e[1], None, env)
                if t not in INT:
                    self.fail(".%s() on %s" % (e[2], t))
                a = self.val(e[1], None, cx)
                return (app("popcount", a) if e[2] == "count_ones" else app("clz", str(INT[t]), a)), True
            if e[2].startswith("wrapping_"):
                t = self.need(e, exp, env)
                self.need(e[1], t, env, t), self.need(e[3][0], t, env, t)
                a, b, m = self.val(e[1], t, cx), self.val(e[3][0], t, cx), pow2(INT[t])
                body = {"wrapping_mul": "%s * %s" % (paren(a), paren(b)), "wrapping_add": "%s + %s" % (paren(a), paren(b)),
                        "wrapping_sub": "%s + %s - %s" % (paren(a), m, paren(b))}[e[2]]
                return "(%s) mod %s" % (body, m), True
            return self.emit_call(self.callee((self.unit.rel, self.owner, e[2]), e[2]), e[3], cx, True)
        if k == "call":
            t = self.ty(e, exp, env)
            if len(e[1]) == 2 and e[1][1] in ("zero", "one"):
                return ("0" if e[1][1] == "zero" else "1"), True
            if e[1][-1] == "size_of":
                return str(INT[e[2][0]] // 8), True
            return self.emit_call(self.callee((self.unit.rel, None, e[1][0]), e[1][0]), e[3], cx, False)
        if k == "index":
            self.ty(e, exp, env)
            self.need(e[2], "usize", env, "usize")
            lst = self.is_self_field(e[1])[0] if self.is_self_field(e[1]) else self.const_array(e[1])[0]
            i = self.val(e[2], "usize", cx)
            return app("idx", lst, i), False
        if k == "tuple":
            t = self.need(e, exp, env)
            return "(" + ", ".join(self.val(x, tx, cx) for x, tx in zip(e[1], t[1])) + ")", True
        if k == "if":
            if e[3] is None:
                self.fail("`if` without `else` used as a value")
            t = self.need(e, exp, env)
            c = self.val(e[1], "bool", cx)
            self.need(e[1], "bool", env, "bool")
            arms = []
            for blk in (e[2], e[3]):
                sub = Cx(self, env, cx.depth + 1)
                self.need(blk, t, env, t)
                arms.append(self.block_lines(blk, t, sub, False))
            if all(len(a) == 1 and a[0].startswith("Val ") for a in arms):
                return "if %s then %s else %s" % (c, arms[0][0][4:], arms[1][0][4:]), True
            return "\n".join(["(if %s then" % c] + ["  " + l for l in arms[0]] + ["else"] + ["  " + l for l in arms[1][:-1]] + ["  " + arms[1][-1] + ")"]), False
        if k == "block":
            if not e[1] and e[2] is not None:
                return self.emit(e[2], exp, cx)
            t = self.need(e, exp, env)
            return "(" + "\n ".join(self.block_lines(e, t, Cx(self, env, cx.depth + 1), False)) + ")", False
        if k == "field":
            self.ty(e, exp, env)
            return self.is_self_field(e, ("scalar",))[0], True
        self.fail("expression `%s`" % k)

    def emit_call(self, sig, args, cx, method):
        if sig.selfkind == "mut" or bool(sig.selfkind) != method:
            self.fail("call of %s (receiver kind)" % sig.coq)
        if len(args) != len(sig.params):
            self.fail("call of %s (arity)" % sig.coq)
        vs = []
        for a, (_, pt) in zip(args, sig.params):
            self.need(a, pt, cx.env, pt)
            vs.append(self.val(a, pt, cx))
        return app(sig.coq, *([self.field_coq[f] for f in sig.fields] + vs)), False

    def emit_bin(self, e, exp, cx):
        _, op, A, B = e
        env = cx.env
        if op in ("&&", "||"):
            self.need(A, "bool", env, "bool"), self.need(B, "bool", env, "bool")
            a = self.val(A, "bool", cx)
            n = len(cx.lines)
            b = self.val(B, "bool", cx)
            if len(cx.lines) != n:
                self.fail("`%s` whose right operand can fault" % op)
            return app("andb" if op == "&&" else "orb", a, b), True
        if op in CMP:
            t = self.ty(A, None, env) or self.ty(B, None, env)
            if t is None:
                self.fail("comparison of two unsuffixed literals")
            self.need(A, t, env, t), self.need(B, t, env, t)
            a, b = self.val(A, t, cx), self.val(B, t, cx)
            if t == "bool" and op in ("==", "!="):
                s = app("Bool.eqb", a, b)
            elif t in INT:
                s = {"==": app("N.eqb", a, b), "!=": app("N.eqb", a, b), "<": app("N.ltb", a, b), "<=": app("N.leb", a, b),
                     ">": app("N.ltb", b, a), ">=": app("N.leb", b, a)}[op]
            else:
                self.fail("comparison at type %s" % (t,))
            return (app("negb", s) if op == "!=" else s), True
        t = self.need(e, exp, env)
        if op in ("<<", ">>"):
            if t not in INT:
                self.fail("shift at type %s" % (t,))
            w = INT[t]
            self.need(A, t, env, t)
            a = self.val(A, t, cx)
            n = B[1] if B[0] == "lit" else self.i32_const(B)
            if n is not None:
                if n < w:
                    return (app("N.shiftr", a, str(n)) if op == ">>" else "%s mod %s" % (app("N.shiftl", a, str(n)), pow2(w))), True
                b = str(n)
            else:
                tb = self.need(B, None, env)
                if tb not in INT:
                    self.fail("shift amount of type %s" % (tb,))
                b = self.val(B, None, cx)
            return app("oshr" if op == ">>" else "oshl", str(w), a, b), False
        self.need(A, t, env, t), self.need(B, t, env, t)
        a, b = self.val(A, t, cx), self.val(B, t, cx)
        if t == "bool" and op in ("&", "|", "^"):
            return app({"&": "andb", "|": "orb", "^": "xorb"}[op], a, b), True
        if t not in INT:
            self.fail("operator `%s` at type %s" % (op, t))
        w = str(INT[t])
        if op in ("&", "|", "^"):
            return app({"&": "N.land", "|": "N.lor", "^": "N.lxor"}[op], a, b), True
        if op == "+":
            return app("oadd", w, a, b), False
        if op == "*":
            return app("omul", w, a, b), False
        if op == "-":
            return app("osub", a, b), False
        pure = "%s %s %s" % (paren(a), "/" if op == "/" else "mod", paren(b))
        if self.constval(B, t, env) not in (None, 0):
            return pure, True
        return "if %s =? 0 then Fault Panic else Val (%s)" % (paren(b), pure), False

    def i32_const(self, e):
        """value of an expression made of unsuffixed literals and + - * only (as a shift amount its type falls back
        to i32 in Rust), None for anything else or when it leaves 0 .. 2^31-1"""
        if e[0] == "lit" and e[2] is None:
            return e[1] if e[1] < 2 ** 31 else None
        if e[0] == "bin" and e[1] in ("+", "-", "*"):
            a, b = self.i32_const(e[2]), self.i32_const(e[3])
            if a is None or b is None:
                return None
            v = {"+": a + b, "-": a - b, "*": a * b}[e[1]]
            return v if 0 <= v < 2 ** 31 else None
        return None

    def constval(self, e, t, env):
        """value of a constant expression of type t (literals, integer consts, + - * / % of those), else None"""
        k = e[0]
        if k == "lit" and e[2] in (None, t):
            return e[1] if e[1] < 2 ** INT[t] else None
        if k == "var" and e[1] not in env and (None, e[1]) in self.unit.items["const"] and e[1] not in STATIC_TABLES:
            c = self.unit.const(None, e[1], self.where)
            return c[1] if c[0] == t else None
        if k == "path" and len(e[1]) == 2 and e[1][0] == "Self" and (self.owner, e[1][1]) in self.unit.items["const"]:
            c = self.unit.const(self.owner, e[1][1], self.where)
            return c[1] if c[0] == t and isinstance(c[1], int) else None
        if k == "bin" and e[1] in ("+", "-", "*", "/", "%"):
            a, b = self.constval(e[2], t, env), self.constval(e[3], t, env)
            if a is None or b is None or (e[1] in ("/", "%") and b == 0):
                return None
            v = {"+": a + b, "-": a - b, "*": a * b, "/": a // b if b else 0, "%": a % b if b else 0}[e[1]]
            return v if 0 <= v < 2 ** INT[t] else None
        return None

    # ---- statements ----
    def block_lines(self, blk, exp, cx, fn_level):
        """lines of the outcome-typed Gallina term of a block; lets/returns as described in the docstring"""
        _, stmts, tail = blk
        L = cx.lines
        for n, s in enumerate(stmts):
            k = s[0]
            if k == "let":
                t = self.let_types(s, cx.env, lambda a, b: None, (stmts[n + 1:], tail, self.ret if fn_level else exp))
                v, pure = self.emit(s[3], t, cx)
                self.need(s[3], t, cx.env, t)
                if isinstance(s[1], list):
                    names = [cx.bind(a, ta) for a, ta in zip(s[1], t[1])]
                    pat = ("(%s)" if not pure else "'(%s)") % ", ".join(names)
                else:
                    pat = cx.bind(s[1], t)
                L.append("let%s %s := %s in" % ("" if pure else "!", pat, v))
            elif k == "assign":
                self.assign(s, cx)
            elif k == "macro":
                self.need(s[2], "bool", cx.env, "bool")
                c = self.val(s[2], "bool", cx)
                L.append("let! _ := %s in" % app("odebug_assert" if s[1] == "debug_assert" else "oassert", c))
            elif k == "return":
                if not fn_level:
                    self.fail("`return` inside a nested block expression")
                fin = self.final(s[1], cx)
                return L + fin
            elif k == "expr" and s[1][0] == "if" and s[1][3] is None:
                th = s[1][2]
                if th[1] and th[2] is None and all(x[0] in ("let", "assign", "macro") for x in th[1]) \
                        and any(x[0] == "assign" for x in th[1]):
                    self.cond_assign(s[1], cx)
                    continue
                if not (th[1] and th[1][-1][0] == "return" and th[2] is None and fn_level):
                    self.fail("`if` statement without `else` that neither ends in `return` nor only assigns")
                self.need(s[1][1], "bool", cx.env, "bool")
                c = self.val(s[1][1], "bool", cx)
                arm = self.block_lines(th, exp, Cx(self, cx.env, cx.depth + 1), True)
                L += ["if %s then %s else" % (c, arm[0])] if len(arm) == 1 else ["if %s then" % c] + ["  " + l for l in arm] + ["else"]
            else:
                self.fail("statement-level `%s` expression" % s[1][0])
        if tail is None and not fn_level:
            self.fail("block without a value")
        fin = self.final(tail, cx) if fn_level else self.as_outcome(tail, exp, cx)
        return L + fin

    def cond_assign(self, e, cx):
        """`if c { x op= e; .. }` (no else; lets, assignments to variables of the enclosing block and assertions
        only): the assigned variables are rebound to (if c then <their values after the block> else themselves)"""
        _, c, th, _ = e
        assigned, declared = [], set()
        for st in th[1]:
            if st[0] == "let":
                declared |= set(st[1] if isinstance(st[1], list) else [st[1]])
            elif st[0] == "assign":
                if st[1][0] != "var":
                    self.fail("assignment to something else than a local variable inside an `if` without `else`")
                n = st[1][1]
                if n not in cx.env:
                    self.fail("assignment to unknown `%s`" % n)
                if cx.env[n][2] != cx.depth:
                    self.fail("assignment to `%s` from a nested block" % n)
                if n not in assigned:
                    assigned.append(n)
        if declared & set(assigned):
            self.fail("`let` of a variable that the same `if` block assigns")
        self.need(c, "bool", cx.env, "bool")
        cv = self.val(c, "bool", cx)
        sub = Cx(self, cx.env, cx.depth + 1)
        for n in assigned:
            sub.env[n] = (cx.env[n][0], cx.env[n][1], sub.depth)
        ts = [cx.env[n][1] for n in assigned]
        tail = ("var", assigned[0]) if len(assigned) == 1 else ("tuple", [("var", n) for n in assigned])
        t = ts[0] if len(assigned) == 1 else ("tuple", tuple(ts))
        arm = self.block_lines(("block", th[1], tail), t, sub, False)
        names = [cx.env[n][0] for n in assigned]
        same = names[0] if len(names) == 1 else "(%s)" % ", ".join(names)
        if len(arm) == 1 and arm[0].startswith("Val "):
            cx.lines.append("let %s := if %s then %s else %s in" % (same if len(names) == 1 else "'" + same, cv, arm[0][4:], same))
        else:
            cx.lines.append("\n".join(["let! %s := (if %s then" % (same, cv)] + ["  " + l for a in arm for l in a.split("\n")]
                                      + ["else Val %s) in" % same]))

    def as_outcome(self, e, exp, cx):
        v, pure = self.emit(e, exp, cx)
        self.need(e, exp, cx.env, exp)
        return [("Val " + paren(v)) if pure else v]

    def final(self, e, cx):
        if self.ret == "unit":
            if e is not None:
                self.fail("value returned from a unit function")
            if self.selfkind != "mut":
                self.fail("unit function without `&mut self`")
            return ["Val " + self.mut_field()]
        if e is None:
            self.fail("missing return value")
        if self.selfkind == "mut":
            self.fail("`&mut self` method returning a value")
        return self.as_outcome(e, self.ret, cx)

    def mut_field(self):
        """Coq name of the one array field a `&mut self` method works on (its new value is the result)"""
        if len(self.used_fields) != 1 or self.fields[self.used_fields[0]][0] != "array":
            self.fail("`&mut self` method that does not use exactly one array field of self")
        return self.field_coq[self.used_fields[0]]

    def assign(self, s, cx):
        _, lhs, op, rhs = s
        if lhs[0] == "var":
            if lhs[1] not in cx.env:
                self.fail("assignment to unknown `%s`" % lhs[1])
            coq, t, depth = cx.env[lhs[1]]
            if depth != cx.depth:
                self.fail("assignment to `%s` from a nested block" % lhs[1])
            e = ("bin", op, lhs, rhs) if op else rhs
            self.need(e, t, cx.env, t)
            v, pure = self.emit(e, t, cx)
            cx.lines.append("let%s %s := %s in" % ("" if pure else "!", coq, v))
        elif lhs[0] == "index" and self.is_self_field(lhs[1]) and self.selfkind == "mut":
            if cx.depth != 0:
                self.fail("assignment to self.%s[..] from a nested block" % lhs[1][2])
            ws, t = self.is_self_field(lhs[1])
            if ws != self.mut_field():
                self.fail("assignment target")
            self.need(rhs, t, cx.env, t), self.need(lhs[2], "usize", cx.env, "usize")
            v = self.val(rhs, t, cx)
            i = self.val(lhs[2], "usize", cx)
            old = self.fresh()
            cx.lines.append("let! %s := %s in" % (old, app("idx", ws, i)))
            new = self.val(("bin", op, ("term", old, t), ("term", v, t)), t, cx) if op else v
            cx.lines.append("let %s := %s in" % (ws, app("setN", ws, i, new)))
        else:
            self.fail("assignment target")

    def translate(self):
        cx = Cx(self, {}, 0)
        names = [cx.bind(p, t) for p, t in self.params]
        lines = self.block_lines(self.body, self.ret, cx, True)
        ret = coq_type(self.ret) if self.ret != "unit" else "list N"
        if self.selfkind == "mut":
            self.mut_field()
        binders = ["(%s : %s)" % (self.field_coq[f], coq_type(self.fields[f][1]) if self.fields[f][0] == "scalar" else "list N")
                   for f in self.used_fields] + ["(%s : %s)" % (n, coq_type(t)) for n, t in zip(names, [t for _, t in self.params])]
        out = ["(* %s: %s%s *)" % (self.unit.rel, self.header, "   with " + ", ".join("%s = %s" % kv for kv in self.subst.items()) if self.subst else ""),
               "Definition %s %s : outcome %s :=" % (self.coq, " ".join(binders), paren(ret))]
        text = "\n".join("  " + l for ln in lines for l in ln.split("\n"))
        return "\n".join(out) + "\n" + text + ".\n", Sig(self.coq, self.selfkind, self.params, self.ret, self.used_fields)


def coq_type(t):
    if t in INT:
        return "N"
    if t == "bool":
        return "bool"
    if isinstance(t, tuple) and t[0] == "tuple":
        return " * ".join(paren(coq_type(x)) for x in t[1])
    raise Unsupported("type %s in a signature" % (t,))


def fmt_const(v, t):
    for w in (16, 32, 64, 128):
        if v == 2 ** w - 1 and t in INT and INT[t] == w:
            return "%s - 1" % pow2(w)
    return str(v)


class Unit:
    """one source file: tokens, item index, const evaluation"""

    def __init__(self, repo, rel):
        self.rel = rel
        path = os.path.join(repo, rel)
        if not os.path.isfile(path):
            raise Unsupported("%s: source file not found under %s" % (rel, repo))
        with open(path) as f:
            self.src = f.read()
        self.toks = tokenize(self.src)
        self.items = scan_items(self.toks)
        self._consts = {}

    def self_fields(self, owner, where):
        """fields of struct `owner` in declaration order: [(name, kind)] with kind ('array', uN, K) for `[uN; K]`,
        ('slice', uN) for `Box<[uN]>` / `Vec<uN>`, ('scalar', uN|bool), or ('opaque', text) for any other type
        (an opaque field may exist, but not be used by a translated function)"""
        j = self.items["struct"].get(owner)
        if j is None:
            raise Unsupported("%s: struct %s not found" % (where, owner))
        toks, i, end, fields = self.toks, j + 1, match_close(self.toks, j), []

        def op(k, t):
            return toks[k].kind == "op" and toks[k].text == t
        while i < end:
            if op(i, "#"):
                i = match_close(toks, i + 1) + 1
                continue
            if toks[i].kind == "id" and toks[i].text == "pub":
                i = match_close(toks, i + 1) + 1 if op(i + 1, "(") else i + 1
            if toks[i].kind != "id" or not op(i + 1, ":"):
                raise Unsupported("%s: struct %s: unsupported field syntax at line %d" % (where, owner, toks[i].line))
            name, i, ty, depth = toks[i].text, i + 2, [], 0
            while i < end and not (depth == 0 and op(i, ",")):
                if op(i, "(") or op(i, "["):
                    k = match_close(toks, i)
                    ty += [x.text for x in toks[i:k + 1]]
                    i = k + 1
                    continue
                depth += {"<": 1, ">": -1, ">>": -2}.get(toks[i].text, 0) if toks[i].kind == "op" else 0
                ty.append(toks[i].text)
                i += 1
            i += 1
            if len(ty) == 1 and (ty[0] in INT or ty[0] == "bool"):
                kind = ("scalar", ty[0])
            elif len(ty) == 5 and ty[0] == "[" and ty[1] in INT and ty[2] == ";" and re.fullmatch(r"[0-9]+", ty[3]) and ty[4] == "]":
                kind = ("array", ty[1], int(ty[3]))
            elif len(ty) == 6 and ty[:3] == ["Box", "<", "["] and ty[3] in INT and ty[4:] == ["]", ">"]:
                kind = ("slice", ty[3])
            elif len(ty) == 4 and ty[:2] == ["Vec", "<"] and ty[2] in INT and ty[3] == ">":
                kind = ("slice", ty[2])
            else:
                kind = ("opaque", " ".join(ty))
            fields.append((name, kind))
        return fields

    def const(self, owner, name, where):
        """(type, value) of a const; value an int, a list of ints, or None for a table left to STATIC_TABLES"""
        key = (owner, name)
        if key not in self._consts:
            i = self.items["const"].get(key)
            if i is None:
                raise Unsupported("%s: const `%s` not found" % (where, name))
            p = Parser(self.toks, i + 3, "%s (const %s)" % (where, name), {})
            t = p.type()
            p.expect("=")
            if owner is None and name in STATIC_TABLES:
                self._consts[key] = (t, None)
            else:
                e = p.expr()
                p.expect(";")
                self._consts[key] = (t, self.ceval(e, t[1] if isinstance(t, tuple) else t, owner, p))
        return self._consts[key]

    def ceval(self, e, t, owner, p):
        """constant evaluation at integer type t; overflow is an error as in rustc"""
        def chk(v):
            if not (t in INT and 0 <= v < 2 ** INT[t]):
                p.fail("constant expression (overflow or non-integer type)")
            return v
        k = e[0]
        if k == "array":
            return [self.ceval(x, t, owner, p) for x in e[1]]
        if k == "lit" and e[2] in (None, t):
            return chk(e[1])
        if k == "path" and len(e[1]) == 2 and e[1][0] == t and e[1][1] == "MAX":
            return 2 ** INT[t] - 1
        if k == "path" and len(e[1]) == 2 and e[1][0] == "Self" and self.const(owner, e[1][1], p.where)[0] == t:
            return self.const(owner, e[1][1], p.where)[1]
        if k == "var" and (None, e[1]) in self.items["const"] and e[1] not in STATIC_TABLES \
                and self.const(None, e[1], p.where)[0] == t:
            return self.const(None, e[1], p.where)[1]
        if k == "bin" and e[1] in ("+", "-", "*", "&", "|", "^", "/", "%"):
            a, b = self.ceval(e[2], t, owner, p), self.ceval(e[3], t, owner, p)
            if e[1] in ("/", "%") and b == 0:
                p.fail("constant expression (division by zero)")
            return chk({"+": a + b, "-": a - b, "*": a * b, "&": a & b, "|": a | b, "^": a ^ b,
                        "/": a // b if b else 0, "%": a % b if b else 0}[e[1]])
        if k == "bin" and e[1] in ("<<", ">>") and e[3][0] == "lit" and e[3][1] < INT.get(t, 0):
            a = self.ceval(e[2], t, owner, p)
            return chk(a >> e[3][1]) if e[1] == ">>" else chk((a << e[3][1]) % 2 ** INT[t])
        p.fail("constant expression")


PREAMBLE = """(* GENERATED by tools/gen_leaves.py from the Rust sources. Do not edit.
   One definition per leaf function, translated operation by operation with the Rust semantics
   at the inferred machine width (see the docstring of the generator for the trusted subset).
   Proofs/LeavesOk.v proves each of them equal to the hand-written model. *)
From QwtModel Require Import ListX SelTable Words.

(* uN::leading_zeros at width w *)
Definition clz (w x : N) : N := w - N.size x.
"""


# group -> (source file, impl self types or None for all): one generated file per group
GROUPS = {"utils": ("src/utils/mod.rs", None), "line": ("src/qvector/mod.rs", ("DataLine",)),
          "sb": ("src/qvector/rs_qvector/rs_support_plain.rs", None),
          "rsn": ("src/bitvector/rs_narrow.rs", None), "rsw": ("src/bitvector/rs_wide.rs", None),
          "qv": ("src/qvector/mod.rs", ("QVector",))}


def generate(repo, group=None, count=None):
    units, sigs, out = {}, {}, [PREAMBLE]
    count = [0] if count is None else count
    for rel, owner, fname, coq, subst in TARGETS:
        if group is not None and (rel != GROUPS[group][0] or (GROUPS[group][1] is not None and owner not in GROUPS[group][1])):
            continue
        count[0] += 1
        if rel not in units:
            units[rel] = Unit(repo, rel)
        try:
            text, sig = FnTranslator(units[rel], owner, fname, coq, subst, sigs).translate()
        except Unsupported:
            raise
        except Exception as e:  # a construct the translator does not even recognise: refuse, never guess
            raise Unsupported("%s: fn %s: unsupported construct (internal translator error: %r)" % (rel, fname, e))
        sigs.setdefault((rel, owner, fname), sig)
        out.append(text)
    return "\n".join(out)


def main():
    here = os.path.dirname(os.path.abspath(__file__))
    ap = argparse.ArgumentParser(description=__doc__.split("\n")[0])
    ap.add_argument("--repo", default=os.environ.get("QWT_REPO", "/repo"))
    ap.add_argument("--out", default=os.path.join(here, "..", "coq", "theories", "Gen", "Leaves.v"))
    ap.add_argument("--group", choices=sorted(GROUPS), default=None,
                    help="translate only the functions of one source file (one generated file per group, so that "
                         "a change in one file breaks only the obligations about that file)")
    a = ap.parse_args()
    t0 = time.time()
    try:
        count = [0]
        text = generate(a.repo, a.group, count)
    except Unsupported as e:
        sys.stderr.write("gen_leaves: BROKEN OBLIGATION: %s\n" % e)
        return 2
    old = open(a.out).read() if os.path.exists(a.out) else None
    if old != text:
        with open(a.out, "w") as f:
            f.write(text)
    print("gen_leaves: %d functions -> %s (%s, %.2fs)" % (count[0], os.path.normpath(a.out),
                                                          "unchanged" if old == text else "written", time.time() - t0))
    return 0


if __name__ == "__main__":
    sys.exit(main())
