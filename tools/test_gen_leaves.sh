#!/bin/bash
# Self-test of T3 (tools/gen_leaves.py + coq/theories/Proofs/LeavesOk.v).
#   usage: tools/test_gen_leaves.sh [repo]        (repo defaults to $QWT_REPO or /repo; read only)
# Works on COPIES of the three Rust source files in <root>/selftest_tmp/<case>/src/... and on a symlink
# farm of coq/theories per case, so neither the repo nor the main Coq tree is touched by the mutants.
#  (a) unmodified source: Gen/Leaves.v is produced in the main tree and Proofs/LeavesOk.vo builds
#  (b) semantic mutations of the leaves: the generated definition changes and LeavesOk.v must FAIL
#  (c) semantics-preserving rewrites: LeavesOk.v must still COMPILE
#  (d) unsupported syntax: the generator must exit non-zero naming function and construct
# Exit status 0 iff every row has the expected outcome.  ONLY=<regex> restricts the cases, JOBS=<n> the parallelism.
set -u
ROOT="$(cd "$(dirname "$0")/.." && pwd)"
REPO="${1:-${QWT_REPO:-/repo}}"
TMP="$ROOT/selftest_tmp"
FILES="src/utils/mod.rs src/qvector/mod.rs src/qvector/rs_qvector/rs_support_plain.rs"
U=src/utils/mod.rs; Q=src/qvector/mod.rs; R=src/qvector/rs_qvector/rs_support_plain.rs
rm -rf "$TMP"; mkdir -p "$TMP"

# ---------------------------------------------------------------- (a) baseline in the main tree
t0=$(date +%s.%N)
python3 "$ROOT/tools/gen_leaves.py" --repo "$REPO" --out "$ROOT/coq/theories/Gen/Leaves.v" > "$TMP/base.gen.log" 2>&1
base_gen=$?
t1=$(date +%s.%N)
base_build=1
if [ $base_gen -eq 0 ]; then
  rm -f "$ROOT/coq/theories/Proofs/LeavesOk.vo"     # force the re-check (and the Print Assumptions output)
  (cd "$ROOT/coq" && timeout 1800 ./build.sh theories/Proofs/LeavesOk.vo) > "$TMP/base.build.log" 2>&1
  base_build=$?
fi
t2=$(date +%s.%N)
closed=$(grep -c "Closed under the global context" "$TMP/base.build.log" 2>/dev/null || true)
printf "(a) baseline: generator rc=%d (%.2fs), build LeavesOk.vo rc=%d (%.1fs), %s theorems closed under the global context\n" \
  $base_gen "$(echo "$t1 - $t0" | bc)" $base_build "$(echo "$t2 - $t1" | bc)" "$closed"
if [ $base_gen -ne 0 ] || [ $base_build -ne 0 ]; then
  cat "$TMP/base.gen.log"; tail -20 "$TMP/base.build.log" 2>/dev/null; echo "SELFTEST FAILED (baseline)"; exit 1
fi

# ---------------------------------------------------------------- cases
# kind | name | file | occurrence (1-based, 0 = all) | old text | new text
CASES=$(cat <<'EOF'
mut|shift-7-to-6-in-rank|Q|1|let last_word = i >> 7;|let last_word = i >> 6;
mut|shift-7-to-6-in-set_symbol|Q|1|let word_id_high = i >> 7;|let word_id_high = i >> 6;
mut|mask-127-to-63-in-get|Q|2|let cur_shift = i & 127;|let cur_shift = i & 63;
mut|plus-2-to-plus-1-in-get|Q|2|let word_id_low = word_id_high + 2;|let word_id_low = word_id_high + 1;
mut|swap-mask_high-mask_low|Q|1|self.words[0] ^ mask_high;|self.words[0] ^ mask_low;
mut|place-64-to-56|U|1|if place == 64 {|if place == 56 {
mut|gt-to-ge-in-select_u128|U|1|if kp as u64 > k {|if kp as u64 >= k {
mut|0xA-to-0x5|U|1|(0xA * k_ones_step4)|(0x5 * k_ones_step4)
mut|byte_rank-shl-8-to-7|U|1|(byte_rank << 8)|(byte_rank << 7)
mut|const-MASK-3-to-1|Q|1|const MASK: u128 = 3;|const MASK: u128 = 1;
mut|REPEATEDSYMB-MAX-to-0|Q|1|u128::MAX, // !bit repeated|0, // !bit repeated
mut|last_word-2-to-3|Q|1|(last_word == 2) as u128|(last_word == 3) as u128
mut|debug_assert-le-to-lt|Q|1|debug_assert!(i <= 256,|debug_assert!(i < 256,
mut|low-bit-mask-1-to-3-in-get|Q|1|(word_low >> cur_shift) & 1) as u8|(word_low >> cur_shift) & 3) as u8
mut|msb-minus-1-to-2|U|1|* 8 - 1) as u32|* 8 - 2) as u32
mut|get_rank-12-to-11|R|1|(block_id - not_first) * 12)|(block_id - not_first) * 11)
mut|sb-shift-84-to-83|R|1|let sb = (data >> 84) as usize;|let sb = (data >> 83) as usize;
pre|rename-local-byte_sums|U|0|byte_sums|bsums
pre|rename-local-cur_shift|Q|0|cur_shift|cs
pre|extra-parentheses|U|1|let k_step8 = k * k_ones_step8;|let k_step8 = ((k) * (k_ones_step8));
pre|reorder-independent-lets-rank|Q|1|let last_word = i >> 7;\n        let offset = i & 127; // offset within the last word|let offset = i & 127;\n        let last_word = i >> 7;
pre|reorder-independent-reads-normalize|Q|1|let word_low_0 = self.words[2] ^ mask_low;\n        let word_high_1 = self.words[1] ^ mask_high;|let word_high_1 = self.words[1] ^ mask_high;\n        let word_low_0 = self.words[2] ^ mask_low;
pre|change-comment|Q|1|// offset within the last word|// position inside the last word (comment changed)
pre|literal-spelling|Q|0|i & 127|i & 0x7F
pre|compound-to-plain-assign|Q|1|rank += (word_1 & mask).count_ones();|rank = rank + (word_1 & mask).count_ones();
uns|for-loop-in-normalize|Q|1|let mask_high = Self::REPEATEDSYMB|for _x in 0..1 {}\n        let mask_high = Self::REPEATEDSYMB
uns|signed-cast-in-select|U|1|let k_step8 = k * k_ones_step8;|let k_step8 = (k as i64 as u64) * k_ones_step8;
uns|untyped-literal-let|Q|1|let mask_full = u128::MAX;|let mask_full = u128::MAX; let _unused = 5;
EOF
)

run_case() {  # runs in a subshell; writes $TMP/<name>.result = "gen_rc changed coq_rc seconds"
  local kind="$1" name="$2" fkey="$3" occ="$4" old="$5" new="$6"
  local d="$TMP/$name"; mkdir -p "$d"
  for f in $FILES; do mkdir -p "$d/$(dirname $f)"; cp "$REPO/$f" "$d/$f"; done
  local file; case "$fkey" in U) file=$U;; Q) file=$Q;; R) file=$R;; esac
  python3 - "$d/$file" "$occ" "$old" "$new" <<'PY' || { echo "X X X 0 mutation-did-not-apply" > "$TMP/$name.result"; return; }
import sys
path, occ, old, new = sys.argv[1], int(sys.argv[2]), sys.argv[3].replace("\\n", "\n"), sys.argv[4].replace("\\n", "\n")
s = open(path).read()
n = s.count(old)
if n == 0 or (occ and n < occ):
    sys.exit("pattern occurs %d times: %r" % (n, old))
if occ == 0:
    s = s.replace(old, new)
else:
    i = -1
    for _ in range(occ):
        i = s.index(old, i + 1)
    s = s[:i] + new + s[i + len(old):]
open(path, "w").write(s)
PY
  local s0=$(date +%s.%N)
  mkdir -p "$d/theories"
  cp -rs "$ROOT/coq/theories/." "$d/theories/"            # symlink farm of the main tree
  rm -f "$d"/theories/Gen/Leaves.* "$d"/theories/Proofs/LeavesOk.* "$d"/theories/Gen/.Leaves.aux "$d"/theories/Proofs/.LeavesOk.aux
  cp "$ROOT/coq/theories/Proofs/LeavesOk.v" "$d/theories/Proofs/LeavesOk.v"
  python3 "$ROOT/tools/gen_leaves.py" --repo "$d" --out "$d/theories/Gen/Leaves.v" > "$d/gen.log" 2>&1
  local grc=$? changed=- crc=-
  if [ $grc -eq 0 ]; then
    if cmp -s "$d/theories/Gen/Leaves.v" "$ROOT/coq/theories/Gen/Leaves.v"; then changed=same; else changed=CHANGED; fi
    ( cd "$d" && timeout 900 coqc -Q theories QwtModel -w -notation-overridden theories/Gen/Leaves.v \
        && timeout 900 coqc -Q theories QwtModel -w -notation-overridden theories/Proofs/LeavesOk.v ) > "$d/coq.log" 2>&1
    crc=$?
  fi
  local s1=$(date +%s.%N)
  echo "$grc $changed $crc $(printf '%.0f' "$(echo "$s1 - $s0" | bc)")" > "$TMP/$name.result"
}

JOBS=${JOBS:-8}
while IFS='|' read -r kind name fkey occ old new; do
  [ -z "$kind" ] && continue
  [ -n "${ONLY:-}" ] && ! echo "$name" | grep -Eq "$ONLY" && continue
  run_case "$kind" "$name" "$fkey" "$occ" "$old" "$new" &
  while [ "$(jobs -rp | wc -l)" -ge "$JOBS" ]; do sleep 0.5; done
done <<< "$CASES"
wait

# ---------------------------------------------------------------- table
fail=0
printf "\n%-4s %-38s %-9s %-9s %-22s %-5s %s\n" kind case generator Leaves.v LeavesOk.v secs verdict
while IFS='|' read -r kind name fkey occ old new; do
  [ -z "$kind" ] && continue
  [ -n "${ONLY:-}" ] && ! echo "$name" | grep -Eq "$ONLY" && continue
  read -r grc changed crc secs extra < "$TMP/$name.result"
  case "$crc" in 0) cs="compiles";; -) cs="-";; 124) cs="TIMEOUT";; *) cs="fails (rc=$crc)";; esac
  verdict=UNEXPECTED
  case "$kind" in
    mut) [ "$grc" = 0 ] && [ "$changed" = CHANGED ] && [ "$crc" != 0 ] && [ "$crc" != - ] && verdict="ok (caught)";;
    pre) [ "$grc" = 0 ] && [ "$crc" = 0 ] && verdict="ok (still proved)";;
    uns) [ "$grc" != 0 ] && [ "$grc" != X ] && grep -q "BROKEN OBLIGATION.*fn .*unsupported" "$TMP/$name/gen.log" && verdict="ok (refused)";;
  esac
  [ "$verdict" = UNEXPECTED ] && fail=1
  printf "%-4s %-38s %-9s %-9s %-22s %-5s %s\n" "$kind" "$name" "rc=$grc" "$changed" "$cs" "$secs" "$verdict ${extra:-}"
  if [ "$kind" = uns ] && [ -f "$TMP/$name/gen.log" ]; then sed 's/^/       | /' "$TMP/$name/gen.log"; fi
  if [ "$kind" = mut ] && [ -f "$TMP/$name/coq.log" ]; then grep -m1 -A0 "^File" "$TMP/$name/coq.log" | sed 's/^/       | /'; fi
done <<< "$CASES"
echo
[ -z "${KEEP:-}" ] && rm -rf "$TMP"/*/theories      # drop the symlink farms, keep sources and logs (KEEP=1 keeps all)
if [ $fail -eq 0 ]; then echo "SELFTEST PASSED"; else echo "SELFTEST FAILED"; fi
exit $fail
