#!/bin/bash
# Self-test of T3 (tools/gen_leaves.py + coq/theories/Proofs/Leaves<G>Ok.v, one generated file and one proof
# file per group G: Utils, Line, SB, RSN, RSW, QV).
#   usage: tools/test_gen_leaves.sh [repo]        (repo defaults to $QWT_REPO or /repo; read only)
# Works on COPIES of the Rust source files in <root>/selftest_tmp/<case>/src/... and on a symlink
# farm of coq/theories per case, so neither the repo nor the main Coq tree is touched by the mutants.
#  (a) unmodified source: Gen/Leaves<G>.v are produced in the main tree and Proofs/Leaves<G>Ok.vo build
#  (b) semantic mutations of the leaves: the generated definition of the group changes and Leaves<G>Ok.v must FAIL
#  (c) semantics-preserving rewrites: Leaves<G>Ok.v must still COMPILE
#  (d) unsupported syntax: the generator must exit non-zero naming function and construct
# The file key of a case selects source file and group: U utils, Q line (DataLine), R sb, N rsn, W rsw, V qv (QVector).
# Exit status 0 iff every row has the expected outcome.  ONLY=<regex> restricts the cases, JOBS=<n> the parallelism.
set -u
ROOT="$(cd "$(dirname "$0")/.." && pwd)"
REPO="${1:-${QWT_REPO:-/repo}}"
TMP="$ROOT/selftest_tmp"
FILES="src/utils/mod.rs src/qvector/mod.rs src/qvector/rs_qvector/rs_support_plain.rs src/bitvector/rs_narrow.rs src/bitvector/rs_wide.rs"
U=src/utils/mod.rs; Q=src/qvector/mod.rs; R=src/qvector/rs_qvector/rs_support_plain.rs
N=src/bitvector/rs_narrow.rs; W=src/bitvector/rs_wide.rs; V=src/qvector/mod.rs
GROUPLIST="utils:Utils line:Line sb:SB rsn:RSN rsw:RSW qv:QV"
rm -rf "$TMP"; mkdir -p "$TMP"
key_info() {  # file key -> "source file|group|Generated-file infix"
  case "$1" in U) echo "$U|utils|Utils";; Q) echo "$Q|line|Line";; R) echo "$R|sb|SB";;
               N) echo "$N|rsn|RSN";; W) echo "$W|rsw|RSW";; V) echo "$V|qv|QV";; esac
}

# ---------------------------------------------------------------- (a) baseline in the main tree
t0=$(date +%s.%N)
base_gen=0; : > "$TMP/base.gen.log"; targets=""
for gg in $GROUPLIST; do
  python3 "$ROOT/tools/gen_leaves.py" --repo "$REPO" --group "${gg%:*}" --out "$ROOT/coq/theories/Gen/Leaves${gg#*:}.v" >> "$TMP/base.gen.log" 2>&1 || base_gen=$?
  targets="$targets theories/Proofs/Leaves${gg#*:}Ok.vo"
done
t1=$(date +%s.%N)
base_build=1
if [ $base_gen -eq 0 ]; then
  for t in $targets; do rm -f "$ROOT/coq/$t"; done     # force the re-check (and the Print Assumptions output)
  (cd "$ROOT/coq" && timeout 1800 ./build.sh $targets) > "$TMP/base.build.log" 2>&1
  base_build=$?
fi
t2=$(date +%s.%N)
closed=$(grep -c "Closed under the global context" "$TMP/base.build.log" 2>/dev/null || true)
printf "(a) baseline: generator rc=%d (%.2fs), build Leaves*Ok.vo rc=%d (%.1fs), %s theorems closed under the global context\n" \
  $base_gen "$(echo "$t1 - $t0" | bc)" $base_build "$(echo "$t2 - $t1" | bc)" "$closed"
if [ $base_gen -ne 0 ] || [ $base_build -ne 0 ]; then
  cat "$TMP/base.gen.log"; tail -20 "$TMP/base.build.log" 2>/dev/null; echo "SELFTEST FAILED (baseline)"; exit 1
fi

# ---------------------------------------------------------------- cases
# kind | name | file | occurrence (1-based, 0 = all) | old text | new text
CASES=$(cat <<'EOF'
mut|shift-7-to-6-in-rank|Q|1|let last_word = i >> 7;|let last_word = i >> 6;
mut|shift-7-to-6-in-set_symbol|Q|1|let word_id_high = i >> 7;|let word_id_high = i >> 6;
mut|mask-127-to-63-in-get|Q|2|let cur_shift = i & 127;|let cur_shift = i & 63;
mut|plus-2-to-plus-1-in-get|Q|2|let word_id_low = word_id_high + 2;|let word_id_low = word_id_high + 1;
mut|swap-mask_high-mask_low|Q|1|self.words[0] ^ mask_high;|self.words[0] ^ mask_low;
mut|place-64-to-56|U|1|if place == 64 {|if place == 56 {
mut|gt-to-ge-in-select_u128|U|1|if kp as u64 > k {|if kp as u64 >= k {
mut|0xA-to-0x5|U|1|(0xA * k_ones_step4)|(0x5 * k_ones_step4)
mut|byte_rank-shl-8-to-7|U|1|(byte_rank << 8)|(byte_rank << 7)
mut|const-MASK-3-to-1|Q|1|const MASK: u128 = 3;|const MASK: u128 = 1;
mut|REPEATEDSYMB-MAX-to-0|Q|1|u128::MAX, // !bit repeated|0, // !bit repeated
mut|last_word-2-to-3|Q|1|(last_word == 2) as u128|(last_word == 3) as u128
mut|debug_assert-le-to-lt|Q|1|debug_assert!(i <= 256,|debug_assert!(i < 256,
mut|low-bit-mask-1-to-3-in-get|Q|1|(word_low >> cur_shift) & 1) as u8|(word_low >> cur_shift) & 3) as u8
mut|msb-minus-1-to-2|U|1|* 8 - 1) as u32|* 8 - 2) as u32
mut|get_rank-12-to-11|R|1|(block_id - not_first) * 12)|(block_id - not_first) * 11)
mut|sb-shift-84-to-83|R|1|let sb = (data >> 84) as usize;|let sb = (data >> 83) as usize;
mut|rsn-block_rank-reads-odd-entry|N|1|self.block_rank_pairs[block * 2] as usize|self.block_rank_pairs[block * 2 + 1] as usize
mut|rsn-field-width-9-to-8|N|1|((7 - left) * 9) & 0x1FF;|((7 - left) * 8) & 0x1FF;
mut|rsn-mask-0x1FF-to-0xFF|N|1|((7 - left) * 9) & 0x1FF;|((7 - left) * 9) & 0xFF;
mut|rsn-const-BLOCK_SIZE-8-to-4|N|1|const BLOCK_SIZE: usize = 8;|const BLOCK_SIZE: usize = 4;
mut|rsw-shift-128-44-to-128-45|W|1|(self.superblock_metadata[block] >> (128 - 44)) as usize|(self.superblock_metadata[block] >> (128 - 45)) as usize
mut|rsw-left-ne-0-to-ne-1|W|2|if left != 0 {|if left != 1 {
mut|rsw-7-minus-left-to-6|W|1|>> ((7 - left) * 12)) & 0b111111111111)|>> ((6 - left) * 12)) & 0b111111111111)
mut|rsw-const-SUPERBLOCK_SIZE-8-to-4|W|1|const SUPERBLOCK_SIZE: usize = 8 * BLOCK_SIZE;|const SUPERBLOCK_SIZE: usize = 4 * BLOCK_SIZE;
mut|rsw-superblock_rank-of-sub_block|W|1|result += self.superblock_rank(superblock);|result += self.superblock_rank(sub_block);
mut|qv-len-shift-1-to-2|V|1|self.position >> 1\n    }|self.position >> 2\n    }
mut|qv-is_empty-0-to-1|V|1|self.position == 0|self.position == 1
pre|rename-local-byte_sums|U|0|byte_sums|bsums
pre|rename-local-cur_shift|Q|0|cur_shift|cs
pre|extra-parentheses|U|1|let k_step8 = k * k_ones_step8;|let k_step8 = ((k) * (k_ones_step8));
pre|reorder-independent-lets-rank|Q|1|let last_word = i >> 7;\n        let offset = i & 127; // offset within the last word|let offset = i & 127;\n        let last_word = i >> 7;
pre|reorder-independent-reads-normalize|Q|1|let word_low_0 = self.words[2] ^ mask_low;\n        let word_high_1 = self.words[1] ^ mask_high;|let word_high_1 = self.words[1] ^ mask_high;\n        let word_low_0 = self.words[2] ^ mask_low;
pre|change-comment|Q|1|// offset within the last word|// position inside the last word (comment changed)
pre|literal-spelling|Q|0|i & 127|i & 0x7F
pre|compound-to-plain-assign|Q|1|rank += (word_1 & mask).count_ones();|rank = rank + (word_1 & mask).count_ones();
pre|rsn-annotate-result|N|1|let mut result = 0;|let mut result: usize = 0;
pre|rsn-rename-local-left|N|1|let left = sub_block % BLOCK_SIZE;\n        result += self.sub_block_ranks(block) >> ((7 - left) * 9) & 0x1FF;|let rem = sub_block % BLOCK_SIZE;\n        result += self.sub_block_ranks(block) >> ((7 - rem) * 9) & 511;
pre|rsn-compound-to-plain-assign|N|1|result += self.block_rank(block);|result = result + self.block_rank(block);
pre|rsw-literal-for-const-quotient|W|1|let superblock = sub_block / (SUPERBLOCK_SIZE / BLOCK_SIZE);|let superblock = sub_block / 8;
pre|rsw-flip-comparison|W|2|if left != 0 {|if 0 != left {
pre|rsw-shift-amount-literal-84|W|1|>> (128 - 44)) as usize|>> 84) as usize
pre|qv-is_empty-flip|V|1|self.position == 0|0 == self.position
uns|for-loop-in-normalize|Q|1|let mask_high = Self::REPEATEDSYMB|for _x in 0..1 {}\n        let mask_high = Self::REPEATEDSYMB
uns|signed-cast-in-select|U|1|let k_step8 = k * k_ones_step8;|let k_step8 = (k as i64 as u64) * k_ones_step8;
uns|untyped-literal-let|Q|1|let mask_full = u128::MAX;|let mask_full = u128::MAX; let _unused = 5;
uns|rsn-uses-opaque-field|N|1|self.block_rank_pairs[block * 2] as usize|self.block_rank_pairs[block * 2 + self.bv.len()] as usize
uns|rsw-if-else-assign|W|1|as usize;\n        }\n        result|as usize;\n        } else {\n            result += 1;\n        }\n        result
uns|rsw-assign-in-nested-if|W|2|if left != 0 {|if left != 0 { if left != 1 { result += 1; }
EOF
)

run_case() {  # runs in a subshell; writes $TMP/<name>.result = "gen_rc changed coq_rc seconds"
  local kind="$1" name="$2" fkey="$3" occ="$4" old="$5" new="$6"
  local d="$TMP/$name"; mkdir -p "$d"
  for f in $FILES; do mkdir -p "$d/$(dirname $f)"; cp "$REPO/$f" "$d/$f"; done
  local file group G; IFS='|' read -r file group G <<< "$(key_info "$fkey")"
  python3 - "$d/$file" "$occ" "$old" "$new" <<'PY' || { echo "X X X 0 mutation-did-not-apply" > "$TMP/$name.result"; return; }
import sys
path, occ, old, new = sys.argv[1], int(sys.argv[2]), sys.argv[3].replace("\\n", "\n"), sys.argv[4].replace("\\n", "\n")
s = open(path).read()
n = s.count(old)
if n == 0 or (occ and n < occ):
    sys.exit("pattern occurs %d times: %r" % (n, old))
if occ == 0:
    s = s.replace(old, new)
else:
    i = -1
    for _ in range(occ):
        i = s.index(old, i + 1)
    s = s[:i] + new + s[i + len(old):]
open(path, "w").write(s)
PY
  local s0=$(date +%s.%N)
  mkdir -p "$d/theories"
  cp -rs "$ROOT/coq/theories/." "$d/theories/"            # symlink farm of the main tree
  rm -f "$d"/theories/Gen/Leaves$G.* "$d"/theories/Proofs/Leaves${G}Ok.* "$d"/theories/Gen/.Leaves$G.aux "$d"/theories/Proofs/.Leaves${G}Ok.aux
  cp "$ROOT/coq/theories/Proofs/Leaves${G}Ok.v" "$d/theories/Proofs/Leaves${G}Ok.v"
  python3 "$ROOT/tools/gen_leaves.py" --repo "$d" --group "$group" --out "$d/theories/Gen/Leaves$G.v" > "$d/gen.log" 2>&1
  local grc=$? changed=- crc=-
  if [ $grc -eq 0 ]; then
    if cmp -s "$d/theories/Gen/Leaves$G.v" "$ROOT/coq/theories/Gen/Leaves$G.v"; then changed=same; else changed=CHANGED; fi
    ( cd "$d" && timeout 900 coqc -Q theories QwtModel -w -notation-overridden theories/Gen/Leaves$G.v \
        && timeout 900 coqc -Q theories QwtModel -w -notation-overridden theories/Proofs/Leaves${G}Ok.v ) > "$d/coq.log" 2>&1
    crc=$?
  fi
  local s1=$(date +%s.%N)
  echo "$grc $changed $crc $(printf '%.0f' "$(echo "$s1 - $s0" | bc)")" > "$TMP/$name.result"
}

JOBS=${JOBS:-8}
while IFS='|' read -r kind name fkey occ old new; do
  [ -z "$kind" ] && continue
  [ -n "${ONLY:-}" ] && ! echo "$name" | grep -Eq "$ONLY" && continue
  run_case "$kind" "$name" "$fkey" "$occ" "$old" "$new" &
  while [ "$(jobs -rp | wc -l)" -ge "$JOBS" ]; do sleep 0.5; done
done <<< "$CASES"
wait

# ---------------------------------------------------------------- table
fail=0
printf "\n%-4s %-38s %-9s %-9s %-22s %-5s %s\n" kind case generator "Leaves<G>.v" "Leaves<G>Ok.v" secs verdict
while IFS='|' read -r kind name fkey occ old new; do
  [ -z "$kind" ] && continue
  [ -n "${ONLY:-}" ] && ! echo "$name" | grep -Eq "$ONLY" && continue
  read -r grc changed crc secs extra < "$TMP/$name.result"
  case "$crc" in 0) cs="compiles";; -) cs="-";; 124) cs="TIMEOUT";; *) cs="fails (rc=$crc)";; esac
  verdict=UNEXPECTED
  case "$kind" in
    mut) [ "$grc" = 0 ] && [ "$changed" = CHANGED ] && [ "$crc" != 0 ] && [ "$crc" != - ] && verdict="ok (caught)";;
    pre) [ "$grc" = 0 ] && [ "$crc" = 0 ] && verdict="ok (still proved)";;
    uns) [ "$grc" != 0 ] && [ "$grc" != X ] && grep -q "BROKEN OBLIGATION.*fn .*unsupported" "$TMP/$name/gen.log" && verdict="ok (refused)";;
  esac
  [ "$verdict" = UNEXPECTED ] && fail=1
  printf "%-4s %-38s %-9s %-9s %-22s %-5s %s\n" "$kind" "$name" "rc=$grc" "$changed" "$cs" "$secs" "$verdict ${extra:-}"
  if [ "$kind" = uns ] && [ -f "$TMP/$name/gen.log" ]; then sed 's/^/       | /' "$TMP/$name/gen.log"; fi
  if [ "$kind" = mut ] && [ -f "$TMP/$name/coq.log" ]; then grep -m1 -A0 "^File" "$TMP/$name/coq.log" | sed 's/^/       | /'; fi
done <<< "$CASES"
echo
[ -z "${KEEP:-}" ] && rm -rf "$TMP"/*/theories      # drop the symlink farms, keep sources and logs (KEEP=1 keeps all)
if [ $fail -eq 0 ]; then echo "SELFTEST PASSED"; else echo "SELFTEST FAILED"; fi
exit $fail
