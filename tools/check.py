#!/usr/bin/env python3
"""Entry point of every check:  check.py <Cxx> quick|thorough   |   check.py <Cxx> --replay <file>

1. regenerate Gen/*.v from /repo, (re)compile the Coq obligations of the property, audit
   Print Assumptions and the no-axiom / no-Admitted rules;
2. rebuild the harness from /repo's working tree, generate cases from VERIF_SEED, run the
   implementation (debug+overflow-checks and optimized), the native spec oracle and the
   extracted Coq model on them and compare;
3. verdict, evidence file, replay file.
"""
import json, os, re, subprocess, sys, time, hashlib, random, shutil

ROOT = os.path.dirname(os.path.dirname(os.path.abspath(__file__)))
sys.path.insert(0, os.path.join(ROOT, "tools"))
import cases as C  # noqa
import props as P  # noqa

REPO = os.environ.get("QWT_REPO", "/repo")
WORK = os.path.join(ROOT, "work")
HARNESS = os.path.join(ROOT, "harness")
COQ = os.path.join(ROOT, "coq")
OCAML = os.path.join(ROOT, "ocaml")
ENV = dict(os.environ, CARGO_NET_OFFLINE="true", RUSTFLAGS="--cfg qwt_verif")

ALLOWED_AXIOMS = {
    # Coq standard library axioms (Reals), allowed only where listed per property
    "ClassicalDedekindReals.sig_forall_dec", "ClassicalDedekindReals.sig_not_dec",
    "FunctionalExtensionality.functional_extensionality_dep", "Classical_Prop.classic",
}
FORBIDDEN = re.compile(r"\b(Admitted|admit|Axiom|Parameter|Conjecture|Admit Obligations)\b|Unset Guard|bypass_check|type-in-type|impredicative-set|Unset Universe Checking|Unset Positivity")


def log(msg):
    print("[check] " + msg, flush=True)


def sh(cmd, cwd=None, timeout=3600, env=None, quiet=True):
    t0 = time.time()
    p = subprocess.run(cmd, cwd=cwd, shell=isinstance(cmd, str), env=env or ENV, stdout=subprocess.PIPE, stderr=subprocess.STDOUT, timeout=timeout)
    out = p.stdout.decode(errors="replace")
    return p.returncode, out, time.time() - t0


# ---------------------------------------------------------------------------- Coq part
def coq_deps(vfile):
    """the .v files (relative to coq/) that vfile transitively Requires from this development"""
    index = {}
    for dp, _, fs in os.walk(os.path.join(COQ, "theories")):
        for f in fs:
            if f.endswith(".v"):
                index[f[:-2]] = os.path.relpath(os.path.join(dp, f), COQ)
    seen, todo = set(), [vfile]
    while todo:
        f = todo.pop()
        if f in seen or not os.path.exists(os.path.join(COQ, f)):
            continue
        seen.add(f)
        txt = re.sub(r"\(\*.*?\*\)", "", open(os.path.join(COQ, f)).read(), flags=re.S)
        for m in re.finditer(r"From\s+QwtModel\s+Require\s+(?:Import\s+|Export\s+)?([^.]*)\.", txt):
            for mod in m.group(1).split():
                if mod in index:
                    todo.append(index[mod])
    return sorted(seen)


def glob_graph():
    """definition-level reference graph of the development, from the .glob files coqc writes:
    (module, name) -> set of (module, name) it mentions (statement, body or proof script)"""
    g = {}
    for dp, _, fs in os.walk(os.path.join(COQ, "theories")):
        for f in fs:
            if not f.endswith(".glob"):
                continue
            mod, cur = None, None
            for line in open(os.path.join(dp, f), errors="replace"):
                if line.startswith("F"):
                    mod = line[1:].strip()
                    continue
                if line.startswith("R"):
                    parts = line.split()
                    if len(parts) < 5 or cur is None or parts[-1] in ("lib", "var", "not", "binder"):
                        continue
                    name = parts[3].split(":")[0]
                    if parts[2] != "<>":
                        name = parts[2] + "." + name
                    g.setdefault(cur, set()).add((parts[1], name))
                    continue
                parts = line.split()
                if len(parts) >= 4 and parts[0] not in ("binder", "DIGEST") and re.match(r"\d+:\d+$", parts[1]):
                    if parts[0] in ("var", "sec", "mod", "modtype"):
                        continue
                    name = parts[3]
                    if parts[2] != "<>":
                        name = parts[2] + "." + name
                    cur = (mod, name)
                    g.setdefault(cur, set())
    return g


def glob_reaches(graph, starts, target_names):
    """which of target_names (constants of Gen.Consts) are reachable from the start nodes"""
    seen, todo, hit = set(), list(starts), set()
    while todo:
        n = todo.pop()
        if n in seen:
            continue
        seen.add(n)
        if n[0] == "QwtModel.Gen.Consts" and n[1] in target_names:
            hit.add(n[1])
        todo.extend(graph.get(n, ()))
    return hit


# T1 sites whose function is also translated by T3: the theorem that the regenerated function equals
# the hand model (which uses the constant) then carries the tie for that constant
T3_COVER = {}
for _n in ("QV_SYM_MASK QV_WORD_SHIFT QV_WORD_MASK QV_LOW_PLANE QVG_WORD_SHIFT QVG_WORD_MASK QVG_LOW_PLANE "
           "QVR_WORD_SHIFT QVR_WORD_MASK").split():
    T3_COVER[_n] = ("LeavesLine.v", "theories/Proofs/LeavesLineOk.vo")
for _n in ("K_ONES_STEP4 K_ONES_STEP8 K_LAMBDAS_STEP8 SIW_M1 SIW_M2 SIW_M3 SIW_PLACE_MUL SIW_NOTFOUND "
           "SIW_BYTE_MASK").split():
    T3_COVER[_n] = ("LeavesUtils.v", "theories/Proofs/LeavesUtilsOk.vo")
for _n in "SB_SHIFT_GR BLK_BITS_GR BLK_MASK_GR SB_SHIFT_GC".split():
    T3_COVER[_n] = ("LeavesSB.v", "theories/Proofs/LeavesSBOk.vo")
for _n in "RSN_SBR_BITS RSN_SBR_MASK".split():
    T3_COVER[_n] = ("LeavesRSN.v", "theories/Proofs/LeavesRSNOk.vo")
for _n in "RSW_SB_SHIFT_RD RSW_BLK_BITS_RD RSW_BLK_MASK".split():
    T3_COVER[_n] = ("LeavesRSW.v", "theories/Proofs/LeavesRSWOk.vo")
for _n in "QV_LEN_SHIFT".split():
    T3_COVER[_n] = ("LeavesQV.v", "theories/Proofs/LeavesQVOk.vo")


def coq_stage(prop):
    """returns dict(ok, obligations, discharged, broken:[names], axioms:[...], log)"""
    res = dict(ok=True, obligations=0, discharged=0, broken=[], axioms=[], log="", theorems=[])
    rc, out, _ = sh([sys.executable, os.path.join(ROOT, "tools", "gen_from_src.py")])
    if rc != 0:
        res.update(ok=False, broken=["Gen (constants/table/schema extraction): " + out.strip()[-400:]])
        res["log"] = out
        return res
    # T1 sites that could not be re-read from the source (reference value kept): decided after the build
    try:
        stale = json.load(open(os.path.join(COQ, "theories", "Gen", "stale_sites.json")))
    except (OSError, ValueError):
        stale = {}
    res["stale_relevant"] = []
    # forbidden constructs anywhere in the development
    bad = []
    for dp, _, fs in os.walk(os.path.join(COQ, "theories")):
        for f in fs:
            if f.endswith(".v"):
                txt = open(os.path.join(dp, f)).read()
                txt_nc = re.sub(r"\(\*.*?\*\)", "", txt, flags=re.S)
                m = FORBIDDEN.search(txt_nc)
                if m:
                    bad.append("%s: %s" % (f, m.group(0)))
    if bad:
        res.update(ok=False, broken=["forbidden construct: " + "; ".join(bad)])
        return res
    pfile = "theories/Properties/%s.v" % prop
    if not os.path.exists(os.path.join(COQ, pfile)):
        res.update(ok=False, broken=["no Properties/%s.v" % prop])
        return res
    vo = pfile + "o"
    # a second statement file Properties/<prop>src.v (theorems about the regenerated code that build on the first)
    pfile2 = "theories/Properties/%ssrc.v" % prop
    has2 = os.path.exists(os.path.join(COQ, pfile2))
    for f in [vo] + ([pfile2 + "o"] if has2 else []):
        try:
            os.remove(os.path.join(COQ, f))
        except FileNotFoundError:
            pass
    # a proof that diverges on a changed definition must not hold the check up: the whole (incremental) build of the
    # property's obligations is given 20 minutes (a cached build takes one or two)
    env_b = dict(ENV, COQ_TIMEOUT=os.environ.get("COQ_TIMEOUT", "1200"))
    rc, out, dt = sh(["./build.sh", vo] + ([pfile2 + "o"] if has2 else []) + ["extraction/Extract.vo"], cwd=COQ, timeout=3000, env=env_b)
    if rc == 124:
        out += "\nFile \"(build)\", line 0, characters 0-0:\nError: the build of the proof obligations did not finish within the time limit (a proof diverges on the current definitions)\n\n"
    res["log"] = out
    if stale:
        # relevant to this property iff one of its theorems reaches the constant through the
        # definition-level reference graph (.glob files); file-level dependencies when the build failed
        src0 = open(os.path.join(COQ, pfile)).read()
        thms0 = re.findall(r"^(?:Theorem|Lemma|Corollary)\s+(\w+)", src0, flags=re.M)
        starts0 = [("QwtModel.Properties.%s" % prop, t) for t in thms0]
        if has2:
            src02 = open(os.path.join(COQ, pfile2)).read()
            starts0 += [("QwtModel.Properties.%ssrc" % prop, t) for t in re.findall(r"^(?:Theorem|Lemma|Corollary)\s+(\w+)", src02, flags=re.M)]
        if rc == 0:
            hit = glob_reaches(glob_graph(), starts0, set(stale))
        else:
            deps = sorted(set(coq_deps(pfile)) | (set(coq_deps(pfile2)) if has2 else set()))
            hit = set()
            for f in deps:
                if f.endswith("Gen/Consts.v") or f.endswith("Proofs/ConstsOk.v"):
                    continue
                t = open(os.path.join(COQ, f)).read()
                hit |= {n for n in stale if re.search(r"\b%s(?![A-Za-z0-9])" % re.escape(n), t)}
        extra = set()
        for name in sorted(hit):
            cov = T3_COVER.get(name)
            first = ""
            if cov:
                try:
                    first = open(os.path.join(COQ, "theories", "Gen", cov[0])).readline()
                except OSError:
                    first = "(* gen_leaves failed"
            if cov and not first.startswith("(* gen_leaves failed"):
                extra.add(cov[1])       # T3 re-reads the whole function: its equality theorem is the tie
            else:
                res["stale_relevant"].append("constant %s can no longer be read from the source (%s)" % (name, stale[name]))
        for tgt in sorted(extra):
            rc2, out2, _ = sh(["./build.sh", tgt], cwd=COQ, timeout=3000)
            if rc2 != 0:
                m2 = re.search(r'File "([^"]+)", line (\d+)[^\n]*\n(Error:.*?)(?:\n\n|\Z)', out2, flags=re.S)
                res["stale_relevant"].append("T1 site(s) stale and the T3 equality theorem no longer checks: %s"
                                             % (("%s:%s %s" % (m2.group(1), m2.group(2), " ".join(m2.group(3).split())[:200])) if m2 else tgt))
            else:
                print("[check] stale T1 site(s) covered by T3: %s rebuilt, the regenerated function equals the hand model" % tgt)
    src = open(os.path.join(COQ, pfile)).read() + ("\n" + open(os.path.join(COQ, pfile2)).read() if has2 else "")
    thms = re.findall(r"^(?:Theorem|Lemma|Corollary)\s+(\w+)", src, flags=re.M)
    res["theorems"] = thms
    res["obligations"] = len(thms)
    if rc != 0:
        m = re.search(r'File "([^"]+)", line (\d+)[^\n]*\n(Error:.*?)(?:\n\n|\Z)', out, flags=re.S)
        where = ("%s:%s %s" % (m.group(1), m.group(2), " ".join(m.group(3).split())[:300])) if m else out.strip()[-300:]
        notes = []
        for gf in ("LeavesUtils.v", "LeavesLine.v", "LeavesSB.v", "LeavesRSN.v", "LeavesRSW.v", "LeavesQV.v",
                   "FnsBv.v", "FnsRsn2.v", "FnsRsw2.v", "FnsRss.v", "FnsRsq.v", "FnsDa.v", "FnsQwt.v", "FnsQv2.v", "FnsHqwt.v", "FnsWt.v", "FnsBvm.v", "FnsUtils.v", "FnsQvb.v", "FnsQwtnew.v", "FnsWtnew.v", "FnsIters.v", "FnsCraft.v", "FnsCraft2.v", "FnsTiters.v", "FnsBvnew.v", "FnsDanew.v"):
            try:
                first = open(os.path.join(COQ, "theories", "Gen", gf)).readline()
            except OSError:
                first = ""
            if first.startswith("(* gen_leaves failed:"):
                notes.append("translator T3 could not read the source for %s: %s" % (gf, first.strip()[22:-2].strip()))
            if first.startswith("(* gen_fns failed:"):
                notes.append("translator T5 could not read the source for %s: %s" % (gf, first.strip()[19:-2].strip()))
        res.update(ok=False, broken=["proof obligation no longer checks: " + where] + notes +
                   ["tie to the source lost: " + x for x in res["stale_relevant"]])
        return res
    # Print Assumptions audit: one block per theorem, in order
    closed = len(re.findall(r"Closed under the global context", out))
    ax = []
    ax_blocks = 0
    inblock = False
    for line in out.split("\n"):
        if line.startswith("Axioms:"):
            inblock = True
            ax_blocks += 1
            continue
        if inblock:
            m = re.match(r"^([A-Za-z_][\w.']*)\s*(:.*)?$", line)
            if m:
                ax.append(m.group(1))
            elif line.startswith(" ") or line.startswith("\t"):
                continue          # continuation of a type
            else:
                inblock = False
    res["axioms"] = sorted(set(ax))
    notallowed = [a for a in set(ax) if a not in ALLOWED_AXIOMS or prop not in P.AXIOM_PROPS]
    if notallowed:
        res.update(ok=False, broken=["theorem depends on axioms not in the allow-list: " + ", ".join(notallowed)])
        return res
    res["discharged"] = min(len(thms), closed + ax_blocks)
    if res["discharged"] < len(thms):
        res.update(ok=False, broken=["Print Assumptions missing for %d theorem(s)" % (len(thms) - res["discharged"])])
    if res["stale_relevant"]:
        res.update(ok=False, broken=res["broken"] + ["tie to the source lost: " + x for x in res["stale_relevant"]])
    return res


# ------------------------------------------------------------------------ build & run
def build_harness(profile):
    if not os.path.exists(os.path.join(HARNESS, "Cargo.lock")) or True:
        shutil.copy(os.path.join(REPO, "Cargo.lock"), os.path.join(HARNESS, "Cargo.lock"))
    tdir = os.path.join(HARNESS, "target")
    cmd = ["cargo", "build", "--offline"]
    if profile == "relnopf":
        cmd += ["--release", "--no-default-features", "--target-dir", os.path.join(HARNESS, "target", "nopf")]
    else:
        cmd += ["--target-dir", tdir]
        if profile == "rel":
            cmd.append("--release")
    rc, out, dt = sh(cmd, cwd=HARNESS, timeout=3000)
    if rc != 0:
        return None, out
    if profile == "relnopf":
        return os.path.join(tdir, "nopf", "release", "qwt_harness"), out
    return os.path.join(tdir, "release" if profile == "rel" else "debug", "qwt_harness"), out


def build_model():
    drv = os.path.join(OCAML, "_build", "model_driver")
    src = [os.path.join(COQ, "model.ml"), os.path.join(OCAML, "driver.ml")]
    if not all(os.path.exists(s) for s in src):
        return None, "model.ml missing (extraction did not run)"
    if os.path.exists(drv) and all(os.path.getmtime(drv) >= os.path.getmtime(s) for s in src):
        return drv, ""
    rc, out, _ = sh(["./build.sh"], cwd=OCAML, timeout=600)
    if rc != 0:
        return None, out
    return drv, out


def run_lines(binary, args, text_lines, tag, wdir, timeout=1800, ulimit_stack=False):
    """run a line-oriented tool on the given command lines; handles aborts by replacing the
    aborting command with SKIP and re-running.  returns list of answers (same length as the
    non-CASE... actually as all lines)."""
    lines = list(text_lines)
    aborted = {}
    for attempt in range(200):
        path = os.path.join(wdir, "%s.cases" % tag)
        with open(path, "w") as f:
            f.write("\n".join(lines) + "\n")
        cmd = [binary] + args + [path]
        if ulimit_stack:
            cmd = ["bash", "-c", "ulimit -s unlimited 2>/dev/null || ulimit -s 1000000; exec \"$@\"", "x"] + cmd
        p = subprocess.run(cmd, stdout=subprocess.PIPE, stderr=subprocess.DEVNULL, timeout=timeout, env=ENV)
        out = p.stdout.decode(errors="replace").split("\n")
        if out and out[-1] == "":
            out.pop()
        if p.returncode == 0 and len(out) == len(lines):
            for k, sig in aborted.items():
                out[k] = "A"
            return out
        # aborted at command number len(out)
        k = len(out)
        if k >= len(lines):
            raise RuntimeError("%s: output longer than input" % tag)
        aborted[k] = p.returncode
        # a NEW that aborts: following commands of the case get X anyway
        lines[k] = "SKIP"
    raise RuntimeError("%s: too many aborts" % tag)


# --------------------------------------------------------------------------- compare
def split_alts(s):
    return s.split("/")


def model_matches(model, impl, profile):
    """is the implementation's answer one the model allows?"""
    if model.startswith("-"):
        return True
    if model.startswith("V") and " " in model and " " in impl:
        # SPACE: "V<reported> <heap>" against "V<reported> <heap> <inline> <T|F>"; '?' = not predicted
        mf, imf = model[1:].split(), impl[1:].split()
        return all(a == "?" or a == b for a, b in zip(mf, imf))
    if "," in model or "," in impl:
        ms, is_ = model.split(","), impl.split(",")
        if len(ms) != len(is_):
            return False
        return all(model_matches(m, i, profile) for m, i in zip(ms, is_))
    if model.startswith("F:"):
        kind = model[2:]
        if profile == "dbg":
            return impl in ("P", "A")
        if kind == "Panic":
            return impl in ("P", "A")
        return True  # wrapped arithmetic / unchecked access / disabled assertion: unspecified
    if model == "X":
        return True
    return model == impl


def spec_matches(spec, impl):
    if spec in ("-", "X") or spec.startswith("-") or impl == "X":   # X: command not applicable to this kind / type
        return True
    if "," in spec or "," in impl:
        ss, is_ = spec.split(","), impl.split(",")
        if len(ss) != len(is_):
            return False
        return all(spec_matches(s, i) for s, i in zip(ss, is_))
    if spec.startswith("H") and impl.startswith("H") and ";" in impl:
        # size_hint: lower <= remaining <= upper; an ExactSizeIterator (HE) reports the remaining count exactly
        try:
            exact = spec.startswith("HE")
            r = int(spec[2:] if exact else spec[1:])
            lo, hi = impl[1:].split(";")
            lo = int(lo)
            hi = None if hi == "inf" else int(hi)
        except ValueError:
            return False
        if exact:
            return lo == r and hi == r
        return lo <= r and (hi is None or r <= hi)
    return impl in split_alts(spec)


def first_diff(a, b, pred):
    xs, ys = a.split(","), b.split(",")
    for j, (x, y) in enumerate(zip(xs, ys)):
        if not pred(x, y):
            return j, x, y
    return min(len(xs), len(ys)), "<len %d>" % len(xs), "<len %d>" % len(ys)


class Finding:
    def __init__(self, kind, prop, case, lineno, cmd, profile, expected, got, detail=""):
        self.kind, self.prop, self.case, self.lineno, self.cmd = kind, prop, case, lineno, cmd
        self.profile, self.expected, self.got, self.detail = profile, expected, got, detail

    def key(self):
        return (self.kind, self.case.id, self.lineno, self.profile)


def narrow(cmd, j):
    """turn a sweep command + index into the single query it stands for"""
    t = cmd.split()
    if t[0] == "Q":
        op = t[1]
        m = {"getall": "get", "rankall": "rank", "rankpall": "rankp", "selectall": "select", "rank1all": "rank1",
             "rank0all": "rank0", "select1all": "select1", "select0all": "select0", "getbitsall": "getbits",
             "getwordall": "getword"}
        if op in m:
            if op in ("getall", "rank1all", "rank0all", "getwordall"):
                return "Q %s %d" % (m[op], j)
            if op in ("rankall", "rankpall"):
                return "Q %s %s %d" % (m[op], t[2], j)
            if op == "selectall":
                return "Q select %s %d" % (t[2], j)
            if op in ("select1all", "select0all"):
                return "Q %s %d" % (m[op], j)
            if op == "getbitsall":
                return "Q getbits %d %s" % (j, t[2])
    if t[0] == "ITER":
        return "ITER %s %s %s" % (t[1], t[2][: j + 1], " ".join(t[3:]))
    return cmd


def evaluate(prop, cases, outs, profiles):
    """outs: dict tag -> list of answer lines aligned with the flattened command list"""
    findings = []
    flat = []
    for c in cases:
        flat.append((c, -1, "CASE"))
        for k, l in enumerate(c.lines):
            flat.append((c, k, l))
    n_eval = 0
    n_model = 0
    for idx, (c, k, cmd) in enumerate(flat):
        if k < 0:
            continue
        spec = outs["spec"][idx]
        model = outs["model"][idx] if ("model" in outs and c.model) else "-"
        for prof in profiles:
            impl = outs[prof][idx]
            n_eval += impl.count(",") + 1
            if not spec_matches(spec, impl):
                if "," in spec or "," in impl:
                    j, s, i = first_diff(spec, impl, spec_matches)
                    findings.append(Finding("violation", prop, c, k, narrow(cmd, j), prof, s, i, "element %d of %s" % (j, cmd[:60])))
                else:
                    findings.append(Finding("violation", prop, c, k, cmd, prof, spec, impl))
            if cmd in ("Q codes", "SER") and prof != profiles[0]:
                continue  # every process draws its own tie order; the model was given the first profile's table
            if not model_matches(model, impl, prof):
                if "," in model or "," in impl:
                    j, m, i = first_diff(model, impl, lambda a, b: model_matches(a, b, prof))
                    findings.append(Finding("correspondence", prop, c, k, narrow(cmd, j), prof, m, i, "element %d of %s" % (j, cmd[:60])))
                else:
                    findings.append(Finding("correspondence", prop, c, k, cmd, prof, model, impl))
        if model != "-" and not model.startswith("-"):
            n_model += model.count(",") + 1
    return findings, n_eval, n_model


# ------------------------------------------------------------------- known findings
def load_known():
    p = os.path.join(ROOT, "known_findings.json")
    if not os.path.exists(p):
        return []
    return json.load(open(p)).get("findings", [])


def case_context(f):
    """facts about the failing command used by known-finding predicates"""
    c = f.case
    new = [l for l in c.lines[: f.lineno + 1] if l.startswith("NEW")]
    ctx = dict(kind="", elem="", path="", n=None, cmd=f.cmd.split())
    if new:
        t = new[-1].split()
        ctx.update(kind=t[1], elem=t[2], path=t[3])
        try:
            ctx["n"] = int(t[4])
        except Exception:
            pass
    ctx["lines"] = c.lines[: f.lineno + 1]
    ctx["tags"] = c.tags
    return ctx


def match_known(f, known):
    ctx = case_context(f)
    for k in known:
        if k.get("status") != "known":
            continue
        if f.prop not in k.get("properties", [k.get("property")]):
            continue
        pred = P.KNOWN_PREDICATES.get(k["predicate"])
        if pred and pred(ctx, f):
            return k
    return None


# --------------------------------------------------------------------------- replay
def write_replay(prop, f, note=""):
    os.makedirs(os.path.join(ROOT, "replays"), exist_ok=True)
    # minimal case text: every line up to and including the failing command that builds or
    # mutates state, plus the (narrowed) failing command
    keep = []
    for l in f.case.lines[: f.lineno]:
        if l.split()[0] in ("NEW", "OP", "RT", "CLONE", "STORE"):
            keep.append(l)
    keep.append(f.cmd)
    body = dict(property=prop, kind=f.kind, profile=f.profile, expected=f.expected, got=f.got, detail=f.detail,
                case_id=f.case.id, lines=keep, note=note)
    h = hashlib.sha1(json.dumps(body, sort_keys=True).encode()).hexdigest()[:12]
    path = os.path.join(ROOT, "replays", "%s-%s.json" % (prop, h))
    with open(path, "w") as fh:
        json.dump(body, fh, indent=1)
    return path


def write_obligation_replay(prop, broken, searched):
    os.makedirs(os.path.join(ROOT, "replays"), exist_ok=True)
    body = dict(property=prop, kind="obligation", broken=broken, searched=searched,
                note="a proof obligation or the model/implementation correspondence no longer checks; "
                     "the search found no input on which the implementation fails the specification")
    h = hashlib.sha1(json.dumps(body, sort_keys=True).encode()).hexdigest()[:12]
    path = os.path.join(ROOT, "replays", "%s-%s.json" % (prop, h))
    with open(path, "w") as fh:
        json.dump(body, fh, indent=1)
    return path


def shrink(prop, f, binaries):
    """shorten the data of the NEW line while the failing command still fails against the spec"""
    try:
        lines = [l for l in f.case.lines[: f.lineno] if l.split()[0] in ("NEW", "OP", "RT", "CLONE", "STORE")] + [f.cmd]
        newi = max(i for i, l in enumerate(lines) if l.startswith("NEW"))
        t = lines[newi].split()
        if t[1] in ("rsn", "rsw", "darray0", "darray1", "bv", "bvm") or len(lines) - 1 != newi + 0 and any(l.startswith("OP") for l in lines):
            return f
        vals = t[5:]
        qt = f.cmd.split()
        if len(qt) > 1 and qt[0] == "Q" and qt[1].startswith("u"):
            return f          # an unchecked call is meaningful only inside its contract, which depends on the data

        def fails(vs, q):
            ls = ["CASE s", " ".join(t[:4] + [str(len(vs))] + vs), q]
            wdir = os.path.join(WORK, prop)
            prof = f.profile
            i = run_lines(binaries[prof], ["--mode", "impl"], ls, "shrink_impl", wdir, timeout=120)
            s = run_lines(binaries["dbg"], ["--mode", "spec"], ls, "shrink_spec", wdir, timeout=120)
            return not spec_matches(s[2], i[2])
        # only position-independent shrinking: drop a suffix / prefix chunk when the query has no position
        best = vals
        q = f.cmd
        changed = True
        rounds = 0
        t_start = time.time()
        budget = float(os.environ.get("VERIF_SHRINK_SECONDS", "45"))
        while changed and rounds < 40 and len(best) > 1 and time.time() - t_start < budget:
            changed = False
            rounds += 1
            for cut in (len(best) // 2, len(best) // 4, 1):
                if cut < 1:
                    continue
                cand = best[: len(best) - cut]
                if cand and fails(cand, q):
                    best = cand
                    changed = True
                    break
        if len(best) < len(vals):
            c2 = C.Case(f.case.id + "-shrunk", tags=f.case.tags)
            c2.lines = [" ".join(t[:4] + [str(len(best))] + best), q]
            return Finding(f.kind, f.prop, c2, 1, q, f.profile, f.expected, f.got, f.detail + " (shrunk from %d to %d symbols)" % (len(vals), len(best)))
    except Exception as e:  # shrinking is best effort
        log("shrink skipped: %r" % (e,))
    return f


# ------------------------------------------------------------------------------ main
def run_cases(prop, cases, profiles, binaries, model_bin, wdir, tag=""):
    lines = []
    for c in cases:
        lines.append("CASE " + c.id)
        lines += c.lines
    outs = {}
    t0 = time.time()
    for prof in profiles:
        outs[prof] = run_lines(binaries[prof], ["--mode", "impl"], lines, tag + "impl_" + prof, wdir)
    outs["spec"] = run_lines(binaries[profiles[0]], ["--mode", "spec"], lines, tag + "spec", wdir)
    t1 = time.time()
    if model_bin:
        mlines = []
        for c in cases:
            mlines.append("CASE " + c.id)
            mlines += (c.lines if c.model else ["# skipped"] * 0 + ["SKIP"] * len(c.lines))
        # shard the model run over cores
        outs["model"] = run_model_sharded(model_bin, cases, wdir, tag, impl_flat=outs[profiles[0]])
    log("ran %d cases: impl+spec %.1fs, model %.1fs" % (len(cases), t1 - t0, time.time() - t1))
    return outs


def _load_schema_ids():
    try:
        return json.load(open(os.path.join(COQ, "theories", "Gen", "schema_ids.json")))
    except Exception:
        return {}


SCHEMA_IDS = {}


def run_model_sharded(model_bin, cases, wdir, tag, shards=16, impl_flat=None):
    import concurrent.futures
    global SCHEMA_IDS
    SCHEMA_IDS = _load_schema_ids()
    # Huffman-shaped trees: the code table the implementation picked (it depends on a randomly
    # seeded hash map) is handed to the model on the `Q codes` line; the model re-derives it
    # with its own craft_wm_codes (compared on that line) and builds the tree from it
    start = {}
    pos = 0
    for i, c in enumerate(cases):
        start[i] = pos
        pos += 1 + len(c.lines)

    def model_lines(i):
        c = cases[i]
        out = []
        for k, l in enumerate(c.lines):
            if l == "Q codes" and impl_flat is not None:
                a = impl_flat[start[i] + 1 + k]
                out.append("Q codes " + a if a.startswith("V") else l)
            elif l == "SER" and impl_flat is not None:
                a = impl_flat[start[i] + 1 + k]
                news = [x for x in c.lines[:k] if x.startswith("NEW")]
                sid = None
                if news and a.startswith("V") and ":" in a:
                    t = news[-1].split()
                    sid = SCHEMA_IDS.get("%s:%s" % (t[1], t[2]), SCHEMA_IDS.get("%s:*" % t[1]))
                    # conversions between BitVector and BitVectorMut keep the layout
                out.append("SER %d %s" % (sid, a.split(":", 1)[1]) if sid is not None and len(a) < 400000 else l)
            else:
                out.append(l)
        return out

    groups = [[] for _ in range(shards)]
    # greedy balance by estimated cost
    order = sorted(range(len(cases)), key=lambda i: -cases[i].tags.get("cost", len(cases[i].lines)))
    loads = [0] * shards
    for i in order:
        g = loads.index(min(loads))
        groups[g].append(i)
        loads[g] += cases[i].tags.get("cost", len(cases[i].lines)) if cases[i].model else 1
    results = {}

    def work(g):
        ls = []
        for i in groups[g]:
            c = cases[i]
            ls.append("CASE " + c.id)
            ls += model_lines(i) if c.model else ["SKIP"] * len(c.lines)
        if not ls:
            return g, []
        return g, run_lines(model_bin, [], ls, "%smodel_%d" % (tag, g), wdir, ulimit_stack=True)

    with concurrent.futures.ThreadPoolExecutor(max_workers=shards) as ex:
        for g, out in ex.map(work, range(shards)):
            pos = 0
            for i in groups[g]:
                c = cases[i]
                results[i] = out[pos: pos + 1 + len(c.lines)]
                pos += 1 + len(c.lines)
    flat = []
    for i, c in enumerate(cases):
        r = results[i]
        if not c.model:
            r = [r[0]] + ["-"] * len(c.lines)
        flat += r
    return flat


def expand_tokens(toks):
    """numbers in the harness's compact notation: `v`, `v*c` (v repeated c times), `a..b*c` (each of a..b-1 c times)"""
    out = []
    for x in toks:
        if "*" in x:
            v, c = x.split("*", 1)
            c = int(c)
            if ".." in v:
                a, b = v.split("..", 1)
                for s_ in range(int(a), int(b)):
                    out += [s_] * c
            else:
                out += [int(v)] * c
        else:
            out.append(int(x))
    return out


def load_corpus(prop):
    d = os.path.join(ROOT, "corpus")
    out = []
    if os.path.isdir(d):
        for fn in sorted(os.listdir(d)):
            if fn.startswith(prop + "-") and fn.endswith(".json"):
                b = json.load(open(os.path.join(d, fn)))
                c = C.Case("corpus-" + fn[:-5], model=b.get("model", True), tags=dict(corpus=True))
                c.lines = b["lines"]
                # the attributes the per-property post-checks read (sequence, family), from the NEW line
                c.seq, c.fam = [], ""
                for l in c.lines:
                    t = l.split()
                    if t and t[0] == "NEW" and len(t) >= 3:
                        kind = t[1]
                        c.fam = ("hq" if kind.startswith("hqwt") else "q" if kind.startswith("qwt") else "hw" if kind == "hwt"
                                 else "w" if kind == "wt" else "da" if kind.startswith("darray") else
                                 "rsq" if kind.startswith("rsq") else kind)
                        try:
                            c.seq = expand_tokens(t[5:])
                        except ValueError:
                            c.seq = []
                        c.tags.setdefault("kind", kind)
                        break
                out.append(c)
    return out


def main():
    if len(sys.argv) < 3:
        print("usage: check.py Cxx quick|thorough | Cxx --replay file")
        return 2
    prop = sys.argv[1]
    tier = sys.argv[2]
    seed = int(os.environ.get("VERIF_SEED", "20260929"))
    spec = P.PROPS[prop]
    wdir = os.path.join(WORK, prop)
    os.makedirs(wdir, exist_ok=True)
    t_start = time.time()
    replay_mode = tier == "--replay"

    # ---------------- stage 1: Coq obligations
    if os.environ.get("VERIF_DEV_SKIP_COQ"):
        coq = dict(ok=True, obligations=0, discharged=0, broken=[], axioms=[], log="", theorems=[])  # development aid only
    else:
        coq = coq_stage(prop)
    for b in coq["broken"]:
        log("OBLIGATION BROKEN: " + b)
    log("coq: %d/%d obligations discharged%s" % (coq["discharged"], coq["obligations"], (" axioms: " + ", ".join(coq["axioms"])) if coq["axioms"] else ""))

    # ---------------- stage 2: builds
    profiles = list(spec.get("profiles", ["dbg", "rel"]))
    binaries = {}
    build_broken = []
    for prof in profiles:
        b, out = build_harness(prof)
        if b is None:
            build_broken.append("harness (%s) does not build against /repo: %s" % (prof, out.strip()[-600:]))
        else:
            binaries[prof] = b
    if spec.get("sendsync"):
        # C18: the Send + Sync obligation is a compile-time fact about the library's types
        rc_ss, out_ss, _ = sh(["cargo", "build", "--offline", "--features", "sendsync_check", "--bin", "sendsync", "--target-dir", os.path.join(HARNESS, "target")], cwd=HARNESS, timeout=3000)
        if rc_ss != 0:
            m = re.search(r"error\[E\d+\]: ([^\n]*)(?:\n[^\n]*){0,12}", out_ss)
            build_broken.append("Send + Sync obligation (harness/src/bin/sendsync.rs) does not compile: " + (m.group(0)[:900] if m else out_ss.strip()[-600:]))
    model_bin, mout = build_model()
    if model_bin is None:
        coq["broken"].append("extracted model does not build: " + mout.strip()[-300:])
        coq["ok"] = False

    violations = []
    known_hits = []
    n_eval = n_model = 0
    samples = []
    dist = {}
    all_findings = []
    cases = []
    if build_broken:
        for b in build_broken:
            log("BUILD BROKEN: " + b)
        path = write_obligation_replay(prop, build_broken, "none: the harness does not compile against the current tree "
                                       "(for C18 this is the Send/Sync obligation; otherwise an API the property observes changed)")
        print("VIOLATION property=%s replay=%s no-failing-input-found" % (prop, path))
        write_evidence(prop, tier if not replay_mode else "quick", seed, coq, 0, 0, [], {}, time.time() - t_start, 1, profiles, model_bin)
        return 1

    # ---------------- stage 3: cases
    if replay_mode:
        body = json.load(open(sys.argv[3]))
        if body.get("kind") == "obligation":
            log("replay of a broken obligation: re-running the full quick check")
            cases = load_corpus(prop) + spec["gen"](random.Random(seed), "quick")
        else:
            c = C.Case("replay", model=True)
            c.lines = body["lines"]
            cases = [c]
    else:
        rng = random.Random(seed * 1000003 + int(prop[1:]))
        cases = load_corpus(prop) + spec["gen"](rng, tier)
        if tier == "thorough":
            # several more independently seeded rounds of the quick generator
            for r in range(int(os.environ.get("VERIF_THOROUGH_ROUNDS", "4"))):
                rr = random.Random(seed * 7907 + 15485863 * (r + 1) + int(prop[1:]))
                extra = spec["gen"](rr, "quick")
                for c in extra:
                    c.id = "t%d-%s" % (r, c.id)
                cases += extra
    # internal-state tie: on moderately sized cases also compare the complete serialized state
    # (bincode bytes of the real value) with the model's own state encoded by the generated schema
    if spec.get("state_tie", True) and not replay_mode:
        for c in cases:
            if c.model and (c.tags.get("n") or 0) <= 3000 and c.lines and c.lines[-1] != "SER" and any(l.startswith("NEW") for l in c.lines):
                c.lines.append("SER")
    outs = run_cases(prop, cases, profiles, binaries, model_bin, wdir)
    findings, n_eval, n_model = evaluate(prop, cases, outs, profiles)
    if spec.get("post"):
        findings += spec["post"](prop, cases, outs, profiles)
    known = load_known()

    corr_broken = [f for f in findings if f.kind == "correspondence"]
    viol = [f for f in findings if f.kind == "violation"]

    # ---------------- stage 4: search when an obligation or the correspondence broke
    searched = ""
    if (not coq["ok"] or corr_broken) and not viol and not replay_mode:
        log("obligation/correspondence broken: searching for a failing input (impl vs spec)")
        extra = []
        for r in range(int(os.environ.get("VERIF_SEARCH_ROUNDS", "6"))):
            rng2 = random.Random(seed * 7919 + 104729 * (r + 1) + int(prop[1:]))
            cs = spec["gen"](rng2, "thorough" if r % 2 else "quick")
            for c in cs:
                c.id = "s%d-%s" % (r, c.id)
                c.model = False
            o2 = run_cases(prop, cs, profiles, binaries, None, wdir, tag="search_")
            f2, e2, _ = evaluate(prop, cs, o2, profiles)
            if spec.get("post"):
                f2 += spec["post"](prop, cs, o2, profiles)
            n_eval += e2
            v2 = [f for f in f2 if f.kind == "violation" and not match_known(f, known)]
            if v2:
                viol += v2
                break
        searched = "quick cases + %d extra seeded rounds of the property's generator against the spec oracle" % (r + 1)

    # ---------------- stage 5: verdict
    seen = set()
    for f in viol:
        k = match_known(f, known)
        if k:
            known_hits.append((k, f))
        else:
            violations.append(f)
    rc = 0
    printed = set()
    for k, f in known_hits:
        if k["id"] not in printed:
            printed.add(k["id"])
            print("KNOWN-FINDING: property=%s %s [%s; e.g. %s => %s, expected %s, %s build]" % (prop, k["what"], k["id"], f.cmd[:80], f.got, f.expected, f.profile))
    if violations:
        # report the first few distinct ones, shrunk
        rep = []
        sig = set()
        for f in violations:
            s = (f.case.id.split("-")[0], f.cmd.split()[0:2].__str__(), f.expected[:1], f.got[:1])
            if s in sig:
                continue
            sig.add(s)
            rep.append(f)
            if len(rep) >= 5:
                break
        for f in rep:
            f = shrink(prop, f, binaries)
            path = write_replay(prop, f)
            print("VIOLATION property=%s replay=%s" % (prop, path))
            log("  %s build: %s => %s (expected %s) %s" % (f.profile, f.cmd[:100], f.got[:60], f.expected[:60], f.detail))
        rc = 1
    elif not coq["ok"] or corr_broken:
        broken = list(coq["broken"])
        for f in corr_broken[:5]:
            broken.append("correspondence: case %s, %s build: `%s` model says %s, implementation says %s %s" % (f.case.id, f.profile, f.cmd[:100], f.expected[:40], f.got[:40], f.detail))
        if corr_broken:
            # keep the disagreeing input so that the replay can re-run it
            f = corr_broken[0]
            broken.append("replay lines: " + json.dumps([l for l in f.case.lines[: f.lineno] if l.split()[0] in ("NEW", "OP", "RT", "CLONE", "STORE")] + [f.cmd])[:2000])
        path = write_obligation_replay(prop, broken, searched)
        print("VIOLATION property=%s replay=%s no-failing-input-found" % (prop, path))
        for b in broken[:6]:
            log("  " + b[:300])
        rc = 1
    # evidence
    for c in cases[:3] + cases[-2:]:
        samples.append(dict(id=c.id, tags=c.tags, commands=[l[:160] for l in c.lines[:6]]))
    for c in cases:
        for k, v in c.tags.items():
            if isinstance(v, (str, int, bool)):
                dist.setdefault(k, {})
                dist[k][str(v)] = dist[k].get(str(v), 0) + 1
    write_evidence(prop, "quick" if replay_mode else tier, seed, coq, n_eval, n_model, samples, dist, time.time() - t_start,
                   len(violations) + (1 if rc and not violations else 0), profiles, model_bin, cases=cases, known=[k["id"] for k, _ in known_hits])
    log("%s %s: %s in %.1fs (%d answers compared with the spec, %d with the model, %d cases)" % (prop, tier, "FAIL" if rc else "ok", time.time() - t_start, n_eval, n_model, len(cases)))
    return rc


def write_evidence(prop, tier, seed, coq, n_eval, n_model, samples, dist, wall, nviol, profiles, model_bin, cases=None, known=None):
    os.makedirs(os.path.join(ROOT, "evidence"), exist_ok=True)
    spec = P.PROPS[prop]
    distinct = 0
    if cases:
        sigs = set()
        for c in cases:
            if c.tags.get("trivial"):
                continue
            sigs.add(hashlib.sha1("\n".join(c.lines).encode()).hexdigest())
        distinct = len(sigs)
    ev = dict(
        property_id=prop, tier=tier, seed=seed, level="proof",
        coverage=dict(
            obligations=max(1, coq["obligations"]), discharged=coq["discharged"],
            checker_cmd="cd /verif/coq && ./build.sh theories/Properties/%s.vo   (coqc 8.16.1, full .vo build; Print Assumptions audited)" % prop,
            trusted_base=P.TRUSTED_BASE + spec.get("trusted", []),
            theorems=coq["theorems"], axioms_reported=coq["axioms"], broken=coq["broken"],
            evaluations=n_eval, distinct_nontrivial=distinct,
            rule="correspondence run: generated cases (see input_distribution) executed by the implementation built from /repo "
                 "(profiles: %s), by the native spec oracle and by the OCaml extraction of the Coq model; an answer counts once per "
                 "profile; a case is non-trivial when it builds a non-empty structure and is distinct by the hash of its command lines" % ",".join(profiles),
            traces_validated_against_impl=n_model,
            samples=samples, input_distribution=dist, known_findings_reproduced=known or [],
            model_extracted=bool(model_bin),
        ),
        assumptions=spec.get("assumptions", []) + ["see trusted_base"],
        wall_s=round(wall, 2), violations=nviol)
    with open(os.path.join(ROOT, "evidence", "%s.json" % prop), "w") as f:
        json.dump(ev, f, indent=1)


if __name__ == "__main__":
    sys.exit(main())
