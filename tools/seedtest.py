#!/usr/bin/env python3
"""Mutation self-test of the machinery (not part of any check verdict).

usage: seedtest.py <seeded-dir> [<seeded-dir> ...]      (each holds patch.diff + meta.json)

For every seeded change: apply it to /repo (git apply), confirm that the repository's own test
suite still passes, run the quick check of the property it targets (and of the extra properties
given with --also), record VIOLATION lines / exit code, and undo the change (git checkout).
Results are appended to seeded/<id>/result.json under /verif/seeded/.
"""
import json, os, subprocess, sys, time, shutil

REPO = "/repo"
VERIF = os.path.dirname(os.path.dirname(os.path.abspath(__file__)))


def sh(cmd, cwd=None, timeout=3600, env=None):
    p = subprocess.run(cmd, cwd=cwd, shell=isinstance(cmd, str), stdout=subprocess.PIPE, stderr=subprocess.STDOUT,
                       timeout=timeout, env=env or dict(os.environ, CARGO_NET_OFFLINE="true"))
    return p.returncode, p.stdout.decode(errors="replace")


def clean():
    sh(["git", "-C", REPO, "checkout", "--", "."])
    rc, out = sh(["git", "-C", REPO, "status", "--porcelain"])
    for l in out.split("\n"):
        if l.startswith("??"):
            f = os.path.join(REPO, l[3:].strip())
            if os.path.isfile(f):
                os.remove(f)


def main():
    also = []
    dirs = []
    run_tests = True
    for a in sys.argv[1:]:
        if a.startswith("--also="):
            also = a.split("=", 1)[1].split(",")
        elif a == "--no-tests":
            run_tests = False
        else:
            dirs.append(a.rstrip("/"))
    rc, out = sh(["git", "-C", REPO, "status", "--porcelain", "--untracked-files=no"])
    if out.strip():
        print("refusing: /repo has local modifications")
        return 2
    for d in dirs:
        sid = os.path.basename(d)
        meta = json.load(open(os.path.join(d, "meta.json")))
        prop = meta.get("property") or sid.split("-")[0]
        res = dict(id=sid, property=prop, checks={})
        t0 = time.time()
        rc, out = sh(["git", "-C", REPO, "apply", os.path.abspath(os.path.join(d, "patch.diff"))])
        if rc != 0:
            res["error"] = "patch does not apply: " + out[-300:]
            print(sid, res["error"])
            clean()
            continue
        try:
            if run_tests:
                rc, out = sh("cargo test --offline 2>&1 | grep -E '^test result' | head -1", cwd=REPO)
                res["repo_tests"] = out.strip()
                clean_tests = "ok. 64 passed" in out
                res["repo_tests_pass"] = clean_tests
            for p in [prop] + [x for x in also if x != prop]:
                rc, out = sh(["./check", p, "quick"], cwd=VERIF, timeout=3000)
                viol = [l for l in out.split("\n") if l.startswith("VIOLATION")]
                detail = [l for l in out.split("\n") if l.startswith("[check]   ")][:4]
                res["checks"][p] = dict(exit=rc, violations=viol[:3], detail=detail,
                                        concrete=any("no-failing-input-found" not in v for v in viol))
                print("%s  check %s: exit %d  %s" % (sid, p, rc, (viol[0] if viol else "no violation")), flush=True)
                # keep the concrete replay as a corpus entry (run first by every later check)
                for v in viol:
                    if "no-failing-input-found" in v:
                        continue
                    try:
                        rp = v.split("replay=")[1].split()[0]
                        rj = json.load(open(rp))
                        if rj.get("kind") == "violation" and rj.get("lines") and len(json.dumps(rj["lines"])) < 400000:
                            json.dump(dict(lines=rj["lines"], model=len(json.dumps(rj["lines"])) < 60000, origin="seeded change %s: %s" % (sid, (rj.get("detail") or "")[:200])),
                                      open(os.path.join(VERIF, "corpus", "%s-seed-%s.json" % (p, sid)), "w"))
                            break
                    except Exception as e:
                        print("corpus entry skipped:", e)
        finally:
            clean()
        res["wall_s"] = round(time.time() - t0, 1)
        dst = os.path.join(VERIF, "seeded", sid)
        os.makedirs(dst, exist_ok=True)
        for f in ("patch.diff", "meta.json", "demo.rs"):
            if os.path.exists(os.path.join(d, f)) and os.path.abspath(d) != os.path.abspath(dst):
                shutil.copy(os.path.join(d, f), os.path.join(dst, f))
        json.dump(res, open(os.path.join(dst, "result.json"), "w"), indent=1)
    return 0


if __name__ == "__main__":
    sys.exit(main())
