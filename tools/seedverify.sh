#!/bin/bash
# Confirm a seeded change in a scratch worktree (never in /repo):
#   with the patch: the repository's 64 tests pass and the demonstration fails;
#   without it: the demonstration passes.
# usage: seedverify.sh <seeded-dir>...     (scratch worktree: /tmp/wt_verify)
export CARGO_NET_OFFLINE=true
WT=${SEEDVERIFY_WT:-/tmp/wt_verify}
if [ ! -d $WT ]; then git -C /repo worktree add -f $WT HEAD >/dev/null 2>&1; fi
for d in "$@"; do
  id=$(basename $d)
  cd $WT && git checkout -q -- . && git clean -fdq -e target
  mkdir -p examples && cp $d/demo.rs examples/seed_demo.rs
  base=$(timeout 900 cargo run --offline --release --example seed_demo >/dev/null 2>&1; echo $?)
  if ! git apply $d/patch.diff 2>/dev/null; then echo "$id: PATCH-DOES-NOT-APPLY"; continue; fi
  tests=$(timeout 1800 cargo test --offline 2>&1 | grep -E '^test result' | head -1 | grep -c 'ok. 64 passed')
  doct=$(timeout 1800 cargo test --offline --doc 2>&1 | grep -E '^test result' | tail -1 | grep -c ' 0 failed')
  mut=$(timeout 900 cargo run --offline --release --example seed_demo >/dev/null 2>&1; echo $?)
  git checkout -q -- . ; rm -f examples/seed_demo.rs
  echo "$id: demo_unpatched_exit=$base tests_pass_with_patch=$tests doctests_ok=$doct demo_patched_exit=$mut"
done
