#!/usr/bin/env python3
"""Regenerate seeded/SUMMARY.json and the table of DESIGN.md section 10 (between the markers
<!-- seeded-table-begin --> and <!-- seeded-table-end -->) from seeded/<id>/{meta,result}.json."""
import json, os, re

VERIF = os.path.dirname(os.path.dirname(os.path.abspath(__file__)))


def main():
    rows = []
    d = os.path.join(VERIF, "seeded")
    for sid in sorted(os.listdir(d)):
        mp, rp = os.path.join(d, sid, "meta.json"), os.path.join(d, sid, "result.json")
        if not (os.path.exists(mp) and os.path.exists(rp)):
            continue
        meta, res = json.load(open(mp)), json.load(open(rp))
        prop = res.get("property") or meta.get("property") or sid.split("-")[0]
        chk = res["checks"].get(prop, {})
        viol = chk.get("violations") or []
        if chk.get("exit") == 1 and chk.get("concrete"):
            status = "caught (concrete replay)"
        elif chk.get("exit") == 1:
            status = "caught (no-failing-input-found)"
        else:
            status = "MISSED"
        det = (chk.get("detail") or [""])[0].replace("[check]   ", "").strip()
        rows.append([sid, prop, status, " ".join((meta.get("what") or "").split())[:150], det[:110]])
    json.dump(rows, open(os.path.join(d, "SUMMARY.json"), "w"), indent=1)
    tab = ["| change | check | result | what was changed | first reported failing input |", "|---|---|---|---|---|"]
    for r in rows:
        tab.append("| %s | %s | %s | %s | %s |" % tuple(x.replace("|", "/") for x in r))
    p = os.path.join(VERIF, "DESIGN.md")
    s = open(p).read()
    b, e = "<!-- seeded-table-begin -->", "<!-- seeded-table-end -->"
    if b in s and e in s:
        s = s[: s.index(b) + len(b)] + "\n" + "\n".join(tab) + "\n" + s[s.index(e):]
        open(p, "w").write(s)
    n = len(rows)
    print("%d changes: %d concrete, %d without input, %d missed" % (
        n, sum(r[2].startswith("caught (concrete") for r in rows), sum("no-failing" in r[2] for r in rows), sum(r[2] == "MISSED" for r in rows)))
    for r in rows:
        if not r[2].startswith("caught (concrete"):
            print("  ", r[0], r[2])


if __name__ == "__main__":
    main()
