#!/usr/bin/env python3
"""T5: regenerate the query algorithms (loops, searches, checked wrappers) of the model from the Rust source.

    python3 tools/gen_fns.py [--repo /repo] --group G [--out coq/theories/Gen/Fns<G>.v]

Extends the leaf translator T3 (tools/gen_leaves.py: tokenizer, expression parser, integer typing and the
operator semantics in the outcome monad are inherited unchanged) to the statement forms and data the query paths
of the library use.  Proofs/Fns<G>Ok.v proves each generated definition equal to the hand-written model the
property theorems are about, so those theorems are re-checked against what the code says now.

Additional Rust subset (anything else: refused with a message, never guessed)
  types   Option<T>, &T / &mut T (= T), &[T] / Box<[T]> / Vec<T> (list), [T; K] (list), named structs of the
          library.  A struct with one field is represented by that field's value (DataLine = its `[u64; 8]`,
          SuperblockPlain = its `[u128; 4]`), so `Box<[DataLine]>` is a list of lists.  A struct with several
          fields is never a value: each of its fields that a function uses (itself or through the methods it
          calls) becomes a parameter named by the field path (`self.bv.n_bits` -> `bv_n_bits`), in declaration
          order, before the function's own parameters.
  items   methods are looked up as rustc does for these types: the inherent method if there is one, else the one
          trait implementation for the type; associated functions `Self::f(..)`, `Type::f(..)`; free functions of
          the same file or of the file named in FN_HOME; const generic parameters by monomorphisation
          (TARGETS gives the value), associated consts of the impl blocks of the type.
  stmts   `let x;` (initialised by its first assignment)  `while c { .. }`  `for x in a..b { .. }`  `break;`
          `return e;` anywhere  `if c { .. }` / `if c { .. } else { .. }` as statements when every arm either
          always leaves (return / break) or only assigns variables of the enclosing blocks.
  exprs   place expressions `self.f.g`, `e[i]` (Fault Panic out of range), `e.get_unchecked(i)` (Fault UB),
          `*e`, `&e`, `e.f` on a one-field struct (identity), `e.len()`, `e.is_empty()` on slices;
          `Some(e)`, `None`, `e.unwrap()` (Fault Panic on None); `x.wrapping_shl(n)`; `a || b` / `a && b` whose
          right operand can fault (evaluated only when needed);
          `f64::sqrt(e as f64) as usize` -> fsqrt e = N.sqrt e (assumption: exact below 2^52);
          `cast_to_u64_slice(&d)` -> concat d (the words of the lines in order; `len * 8` cannot overflow for an
          allocated slice).

Generic element type  a type parameter T bounded by the library's WTIndexable (unsigned primitive integer) is kept
          symbolic: values of type T are N below 2^w and every function that mentions T takes the width `wT : N`
          as its first parameter; `x >> s`, `x << s` -> oshr wT / oshl wT, `& | ^`, comparisons as for uN,
          `T::zero()` -> 0, `x.as_()` on T -> x mod 2^64 (AsPrimitive<usize>, the only impl the bounds of the impl
          blocks give), `x.as_()` on usize -> x mod 2^wT (usize: AsPrimitive<T>), `Self::Item` = T.
          Other generic parameters by monomorphisation (RS = RSQVector<RSSupportPlain<B>>).
  Vec<R>  for a struct R with several fields (`qvs: Vec<RS>`): one list per used field of R, all of the same
          length (`qvs_qv_data`, `qvs_n_occs_smaller`, ..); `self.qvs[i].m(..)` reads each list at i (Fault Panic
          out of range) and calls m on those fields.
  more    `e?` on an Option in a function returning Option (at statement level: `let x = e?;`, `x = .. e? ..;`)
          -> match e with None => return None | Some v => .. ; local `Vec`s: `Vec::with_capacity(n)` / `Vec::new()`
          -> [], `v.push(x);` -> v ++ [x], `v[i]`; `a.checked_add(b)` -> Some (a + b) if below 2^width else None;
          `for x in (a..b).rev()` -> for_loop_rev; a statement `recv.prefetch_*(args);` evaluates the receiver
          and the arguments and has no effect (the prefetch intrinsic has no architectural effect).

Loops (Base/Loops.v)
  the variables declared outside a loop and assigned inside it are its state (a tuple, in order of first
  assignment); the body becomes a function from the state to Next s / Brk s / Ret r in the outcome monad;
  `while` -> while_loop cond body fuel s, `for x in a..b` -> for_loop body a (N.to_nat (b - a)) s.  After
  the loop `match r with Retd v => <return v> | Done s => <rest> end`.  A function that contains (or calls a
  function that contains) a `while` takes `fuel : nat` as its first parameter; exhausting it is Fault OutOfFuel,
  which every theorem excludes.
"""
import argparse, os, re, sys, time

sys.path.insert(0, os.path.dirname(os.path.abspath(__file__)))
import gen_leaves as GL
from gen_leaves import INT, Unsupported, Parser, FnTranslator, Cx, Sig, paren, app, pow2, match_close, tokenize

SINT = {"i8": 8, "i16": 16, "i32": 32, "i64": 64, "isize": 64}   # signed integers: values in Z (Base/Loops.v)

# struct / free function homes for names imported from other files: (file that mentions it, name) -> file
HOME = {
    ("src/bitvector/rs_narrow.rs", "BitVector"): "src/bitvector/mod.rs",
    ("src/bitvector/rs_wide.rs", "BitVector"): "src/bitvector/mod.rs",
    ("src/bitvector/rs_narrow.rs", "select_in_word"): "src/utils/mod.rs",
    ("src/bitvector/rs_wide.rs", "select_in_word"): "src/utils/mod.rs",
    ("src/bitvector/mod.rs", "select_in_word"): "src/utils/mod.rs",
    ("src/bitvector/mod.rs", "BitVectorMut"): "src/bitvector/mod.rs",
    ("src/qvector/rs_qvector/rs_support_plain.rs", "QVector"): "src/qvector/mod.rs",
    ("src/qvector/rs_qvector.rs", "QVector"): "src/qvector/mod.rs",
    ("src/qvector/rs_qvector.rs", "RSSupportPlain"): "src/qvector/rs_qvector/rs_support_plain.rs",
    ("src/qvector/rs_qvector.rs", "select_in_word_u128"): "src/utils/mod.rs",
    ("src/quadwt/mod.rs", "RSQVector"): "src/qvector/rs_qvector.rs",
    ("src/quadwt/mod.rs", "WTIterator"): "src/lib.rs",
    ("src/quadwt/huffqwt.rs", "WTIterator"): "src/lib.rs",
    ("src/binwt/mod.rs", "WTIterator"): "src/lib.rs",
    ("src/lib.rs", "QWaveletTree"): "src/quadwt/mod.rs",
    ("src/lib.rs", "HuffQWaveletTree"): "src/quadwt/huffqwt.rs",
    ("src/lib.rs", "WaveletTree"): "src/binwt/mod.rs",
    ("src/lib.rs", "RSWide"): "src/bitvector/rs_wide.rs",
    ("src/lib.rs", "BitVector"): "src/bitvector/mod.rs",
    ("src/lib.rs", "PrefixCode"): "src/quadwt/huffqwt.rs",
    ("src/lib.rs", "RSQVector"): "src/qvector/rs_qvector.rs",
    ("src/lib.rs", "RSSupportPlain"): "src/qvector/rs_qvector/rs_support_plain.rs",
    ("src/lib.rs", "QVector"): "src/qvector/mod.rs",
    ("src/quadwt/mod.rs", "stable_partition_of_4"): "src/utils/mod.rs",
    ("src/quadwt/mod.rs", "msb"): "src/utils/mod.rs",
    ("src/quadwt/mod.rs", "QVector"): "src/qvector/mod.rs",
    ("src/quadwt/mod.rs", "QVectorBuilder"): "src/qvector/mod.rs",
    ("src/quadwt/huffqwt.rs", "RSQVector"): "src/qvector/rs_qvector.rs",
    ("src/binwt/mod.rs", "RSWide"): "src/bitvector/rs_wide.rs",
    ("src/binwt/mod.rs", "BitVector"): "src/bitvector/mod.rs",
    ("src/binwt/mod.rs", "BitVectorMut"): "src/bitvector/mod.rs",
    ("src/binwt/mod.rs", "stable_partition_of_2"): "src/utils/mod.rs",
    ("src/binwt/mod.rs", "msb"): "src/utils/mod.rs",
    ("src/darray/mod.rs", "select_in_word"): "src/utils/mod.rs",
    ("src/binwt/mod.rs", "PrefixCode"): "src/quadwt/huffqwt.rs",
    ("src/darray/mod.rs", "BitVector"): "src/bitvector/mod.rs",
    ("src/darray/mod.rs", "BitVectorBitPositionsIter"): "src/bitvector/mod.rs",
    ("src/darray/mod.rs", "select_in_word"): "src/utils/mod.rs",
}

# (source file, owner type, fn [or Trait::fn], Coq name, {generic: value}) -- callees first.
# T3's targets come first so that their signatures (and Coq names) are known to the callers below.
TARGETS = list(GL.TARGETS) + [
    # ---- group bv: the accessors of BitVector and of its DataLine that the rank/select structures use
    ("src/bitvector/mod.rs", "DataLine", "get_word", "g_bline_get_word", {}),
    ("src/bitvector/mod.rs", "DataLine", "n_ones", "g_bline_n_ones", {}),
    ("src/bitvector/mod.rs", "DataLine", "n_zeros", "g_bline_n_zeros", {}),
    ("src/bitvector/mod.rs", "DataLine", "rank1_unchecked", "g_bline_rank1_unchecked", {}),
    ("src/bitvector/mod.rs", "DataLine", "rank1", "g_bline_rank1", {}),
    ("src/bitvector/mod.rs", "DataLine", "select1_unchecked", "g_bline_select1_unchecked", {}),
    ("src/bitvector/mod.rs", "DataLine", "select0_unchecked", "g_bline_select0_unchecked", {}),
    ("src/bitvector/mod.rs", "BitVectorMut", "get_bit_slice", "g_get_bit_slice", {}),
    ("src/bitvector/mod.rs", "BitVectorMut", "get_bits_slice", "g_get_bits_slice", {}),
    ("src/bitvector/mod.rs", "BitVector", "is_empty", "g_bv_is_empty", {}),
    ("src/bitvector/mod.rs", "BitVector", "len", "g_bv_len", {}),
    ("src/bitvector/mod.rs", "BitVector", "get_unchecked", "g_bv_get_unchecked", {}),
    ("src/bitvector/mod.rs", "BitVector", "get", "g_bv_get", {}),
    ("src/bitvector/mod.rs", "BitVector", "get_word", "g_bv_get_word", {}),
    ("src/bitvector/mod.rs", "BitVector", "get_bits_unchecked", "g_bv_get_bits_unchecked", {}),
    ("src/bitvector/mod.rs", "BitVector", "get_bits", "g_bv_get_bits", {}),
    ("src/bitvector/mod.rs", "BitVector", "count_ones", "g_bv_count_ones", {}),
    ("src/bitvector/mod.rs", "BitVector", "count_zeros", "g_bv_count_zeros", {}),
    ("src/bitvector/mod.rs", "BitVector", "n_lines", "g_bv_n_lines", {}),
    # ---- group rsn2: RSNarrow queries
    ("src/bitvector/rs_narrow.rs", "RSNarrow", "new", "g_rsn_new", {}),
    ("src/bitvector/rs_narrow.rs", "RSNarrow", "rank1_unchecked", "g_rsn_rank1_unchecked", {}),
    ("src/bitvector/rs_narrow.rs", "RSNarrow", "rank1", "g_rsn_rank1", {}),
    ("src/bitvector/rs_narrow.rs", "RSNarrow", "n_ones", "g_rsn_n_ones", {}),
    ("src/bitvector/rs_narrow.rs", "RSNarrow", "n_zeros", "g_rsn_n_zeros", {}),
    ("src/bitvector/rs_narrow.rs", "RSNarrow", "select1_subblock", "g_rsn_select1_subblock", {}),
    ("src/bitvector/rs_narrow.rs", "RSNarrow", "select0_subblock", "g_rsn_select0_subblock", {}),
    ("src/bitvector/rs_narrow.rs", "RSNarrow", "select1_unchecked", "g_rsn_select1_unchecked", {}),
    ("src/bitvector/rs_narrow.rs", "RSNarrow", "select0_unchecked", "g_rsn_select0_unchecked", {}),
    ("src/bitvector/rs_narrow.rs", "RSNarrow", "select1", "g_rsn_select1", {}),
    ("src/bitvector/rs_narrow.rs", "RSNarrow", "select0", "g_rsn_select0", {}),
    # ---- group rsw2: RSWide queries
    ("src/bitvector/rs_wide.rs", "RSWide", "new", "g_rsw_new", {}),
    ("src/bitvector/rs_wide.rs", "RSWide", "n_zeros", "g_rsw_n_zeros", {}),
    ("src/bitvector/rs_wide.rs", "RSWide", "n_ones", "g_rsw_n_ones", {}),
    ("src/bitvector/rs_wide.rs", "RSWide", "rank1_unchecked", "g_rsw_rank1_unchecked", {}),
    ("src/bitvector/rs_wide.rs", "RSWide", "rank1", "g_rsw_rank1", {}),
    ("src/bitvector/rs_wide.rs", "RSWide", "select1_subblock", "g_rsw_select1_subblock", {}),
    ("src/bitvector/rs_wide.rs", "RSWide", "select0_subblock", "g_rsw_select0_subblock", {}),
    ("src/bitvector/rs_wide.rs", "RSWide", "select1_unchecked", "g_rsw_select1_unchecked", {}),
    ("src/bitvector/rs_wide.rs", "RSWide", "select0_unchecked", "g_rsw_select0_unchecked", {}),
    ("src/bitvector/rs_wide.rs", "RSWide", "select1", "g_rsw_select1", {}),
    ("src/bitvector/rs_wide.rs", "RSWide", "select0", "g_rsw_select0", {}),
    ("src/bitvector/rs_wide.rs", "RSWide", "get_unchecked", "g_rsw_get_unchecked", {}),
    ("src/bitvector/rs_wide.rs", "RSWide", "get", "g_rsw_get", {}),
    ("src/bitvector/rs_wide.rs", "RSWide", "rank0@RankBin@src/lib.rs", "g_rsw_rank0", {}),
    ("src/bitvector/rs_wide.rs", "RSWide", "rank0_unchecked@RankBin@src/lib.rs", "g_rsw_rank0_unchecked", {}),
    # ---- group rss: SuperblockPlain / RSSupportPlain (both block sizes)
    ("src/qvector/rs_qvector/rs_support_plain.rs", "SuperblockPlain", "new", "g_sb_new", {}),
    ("src/qvector/rs_qvector/rs_support_plain.rs", "SuperblockPlain", "set_block_counters", "g_sb_set_block_counters", {}),
    ("src/qvector/rs_qvector/rs_support_plain.rs", "SuperblockPlain", "get_block_counter", "g_sb_get_block_counter", {}),
    ("src/qvector/rs_qvector/rs_support_plain.rs", "SuperblockPlain", "block_predecessor", "g_sb_block_predecessor", {}),
    ("src/qvector/rs_qvector/rs_support_plain.rs", "RSSupportPlain", "superblock_index", "g_rss256_superblock_index", {"B_SIZE": 256}),
    ("src/qvector/rs_qvector/rs_support_plain.rs", "RSSupportPlain", "block_index", "g_rss256_block_index", {"B_SIZE": 256}),
    ("src/qvector/rs_qvector/rs_support_plain.rs", "RSSupportPlain", "rank_block", "g_rss256_rank_block", {"B_SIZE": 256}),
    ("src/qvector/rs_qvector/rs_support_plain.rs", "RSSupportPlain", "select_block", "g_rss256_select_block", {"B_SIZE": 256}),
    ("src/qvector/rs_qvector/rs_support_plain.rs", "RSSupportPlain", "superblock_index", "g_rss512_superblock_index", {"B_SIZE": 512}),
    ("src/qvector/rs_qvector/rs_support_plain.rs", "RSSupportPlain", "block_index", "g_rss512_block_index", {"B_SIZE": 512}),
    ("src/qvector/rs_qvector/rs_support_plain.rs", "RSSupportPlain", "rank_block", "g_rss512_rank_block", {"B_SIZE": 512}),
    ("src/qvector/rs_qvector/rs_support_plain.rs", "RSSupportPlain", "select_block", "g_rss512_select_block", {"B_SIZE": 512}),
    # ---- group qv2: QVector accessors (DataLine leaves are T3's)
    ("src/qvector/mod.rs", "QVector", "get_unchecked", "g_qv_get_unchecked", {}),
    ("src/qvector/mod.rs", "QVector", "get", "g_qv_get", {}),
    ("src/qvector/mod.rs", "QVector", "len", "g_qv_len", {}),
    ("src/qvector/mod.rs", "QVector", "is_empty", "g_qv_is_empty", {}),
    ("src/qvector/rs_qvector/rs_support_plain.rs", "RSSupportPlain", "new", "g_rss256_new", {"B_SIZE": 256}),
    ("src/qvector/rs_qvector/rs_support_plain.rs", "RSSupportPlain", "new", "g_rss512_new", {"B_SIZE": 512}),
    # ---- group rsq: RSQVector (both block sizes)
    ("src/qvector/rs_qvector.rs", "RSQVector", "select_intra_block", "g_rsq256_select_intra_block", {"S": "RSSupportPlain", "B_SIZE": 256}),
    ("src/qvector/rs_qvector.rs", "RSQVector", "rank_intra_block", "g_rsq256_rank_intra_block", {"S": "RSSupportPlain", "B_SIZE": 256}),
    ("src/qvector/rs_qvector.rs", "RSQVector", "len", "g_rsq256_len", {"S": "RSSupportPlain", "B_SIZE": 256}),
    ("src/qvector/rs_qvector.rs", "RSQVector", "is_empty", "g_rsq256_is_empty", {"S": "RSSupportPlain", "B_SIZE": 256}),
    ("src/qvector/rs_qvector.rs", "RSQVector", "get_unchecked", "g_rsq256_get_unchecked", {"S": "RSSupportPlain", "B_SIZE": 256}),
    ("src/qvector/rs_qvector.rs", "RSQVector", "get", "g_rsq256_get", {"S": "RSSupportPlain", "B_SIZE": 256}),
    ("src/qvector/rs_qvector.rs", "RSQVector", "rank_unchecked", "g_rsq256_rank_unchecked", {"S": "RSSupportPlain", "B_SIZE": 256}),
    ("src/qvector/rs_qvector.rs", "RSQVector", "rank", "g_rsq256_rank", {"S": "RSSupportPlain", "B_SIZE": 256}),
    ("src/qvector/rs_qvector.rs", "RSQVector", "occs_unchecked", "g_rsq256_occs_unchecked", {"S": "RSSupportPlain", "B_SIZE": 256}),
    ("src/qvector/rs_qvector.rs", "RSQVector", "occs", "g_rsq256_occs", {"S": "RSSupportPlain", "B_SIZE": 256}),
    ("src/qvector/rs_qvector.rs", "RSQVector", "occs_smaller_unchecked", "g_rsq256_occs_smaller_unchecked", {"S": "RSSupportPlain", "B_SIZE": 256}),
    ("src/qvector/rs_qvector.rs", "RSQVector", "occs_smaller", "g_rsq256_occs_smaller", {"S": "RSSupportPlain", "B_SIZE": 256}),
    ("src/qvector/rs_qvector.rs", "RSQVector", "rank_block_unchecked", "g_rsq256_rank_block_unchecked", {"S": "RSSupportPlain", "B_SIZE": 256}),
    ("src/qvector/rs_qvector.rs", "RSQVector", "select", "g_rsq256_select", {"S": "RSSupportPlain", "B_SIZE": 256}),
    ("src/qvector/rs_qvector.rs", "RSQVector", "select_unchecked", "g_rsq256_select_unchecked", {"S": "RSSupportPlain", "B_SIZE": 256}),
    ("src/qvector/rs_qvector.rs", "RSQVector", "select_intra_block", "g_rsq512_select_intra_block", {"S": "RSSupportPlain", "B_SIZE": 512}),
    ("src/qvector/rs_qvector.rs", "RSQVector", "rank_intra_block", "g_rsq512_rank_intra_block", {"S": "RSSupportPlain", "B_SIZE": 512}),
    ("src/qvector/rs_qvector.rs", "RSQVector", "len", "g_rsq512_len", {"S": "RSSupportPlain", "B_SIZE": 512}),
    ("src/qvector/rs_qvector.rs", "RSQVector", "is_empty", "g_rsq512_is_empty", {"S": "RSSupportPlain", "B_SIZE": 512}),
    ("src/qvector/rs_qvector.rs", "RSQVector", "get_unchecked", "g_rsq512_get_unchecked", {"S": "RSSupportPlain", "B_SIZE": 512}),
    ("src/qvector/rs_qvector.rs", "RSQVector", "get", "g_rsq512_get", {"S": "RSSupportPlain", "B_SIZE": 512}),
    ("src/qvector/rs_qvector.rs", "RSQVector", "rank_unchecked", "g_rsq512_rank_unchecked", {"S": "RSSupportPlain", "B_SIZE": 512}),
    ("src/qvector/rs_qvector.rs", "RSQVector", "rank", "g_rsq512_rank", {"S": "RSSupportPlain", "B_SIZE": 512}),
    ("src/qvector/rs_qvector.rs", "RSQVector", "occs_unchecked", "g_rsq512_occs_unchecked", {"S": "RSSupportPlain", "B_SIZE": 512}),
    ("src/qvector/rs_qvector.rs", "RSQVector", "occs", "g_rsq512_occs", {"S": "RSSupportPlain", "B_SIZE": 512}),
    ("src/qvector/rs_qvector.rs", "RSQVector", "occs_smaller_unchecked", "g_rsq512_occs_smaller_unchecked", {"S": "RSSupportPlain", "B_SIZE": 512}),
    ("src/qvector/rs_qvector.rs", "RSQVector", "occs_smaller", "g_rsq512_occs_smaller", {"S": "RSSupportPlain", "B_SIZE": 512}),
    ("src/qvector/rs_qvector.rs", "RSQVector", "rank_block_unchecked", "g_rsq512_rank_block_unchecked", {"S": "RSSupportPlain", "B_SIZE": 512}),
    ("src/qvector/rs_qvector.rs", "RSQVector", "select", "g_rsq512_select", {"S": "RSSupportPlain", "B_SIZE": 512}),
    ("src/qvector/rs_qvector.rs", "RSQVector", "select_unchecked", "g_rsq512_select_unchecked", {"S": "RSSupportPlain", "B_SIZE": 512}),
    ("src/qvector/rs_qvector.rs", "RSQVector", "From::from", "g_rsq256_from", {"S": "RSSupportPlain", "B_SIZE": 256}),
    ("src/qvector/rs_qvector.rs", "RSQVector", "From::from", "g_rsq512_from", {"S": "RSSupportPlain", "B_SIZE": 512}),
    ("src/qvector/rs_qvector.rs", "RSQVector", "Default::default", "g_rsq256_default", {"S": "RSSupportPlain", "B_SIZE": 256}),
    ("src/qvector/rs_qvector.rs", "RSQVector", "Default::default", "g_rsq512_default", {"S": "RSSupportPlain", "B_SIZE": 512}),
    # ---- group qwt: QWaveletTree walks (element width symbolic, RS = RSQVector<RSSupportPlain<B>>)
    ("src/quadwt/mod.rs", "QWaveletTree", "len", "g_qwt256_len", {"T": "@T", "RS": "RSQVector", "S": "RSSupportPlain", "B_SIZE": 256}),
    ("src/quadwt/mod.rs", "QWaveletTree", "is_empty", "g_qwt256_is_empty", {"T": "@T", "RS": "RSQVector", "S": "RSSupportPlain", "B_SIZE": 256}),
    ("src/quadwt/mod.rs", "QWaveletTree", "n_levels", "g_qwt256_n_levels", {"T": "@T", "RS": "RSQVector", "S": "RSSupportPlain", "B_SIZE": 256}),
    ("src/quadwt/mod.rs", "QWaveletTree", "get_unchecked", "g_qwt256_get_unchecked", {"T": "@T", "RS": "RSQVector", "S": "RSSupportPlain", "B_SIZE": 256}),
    ("src/quadwt/mod.rs", "QWaveletTree", "get", "g_qwt256_get", {"T": "@T", "RS": "RSQVector", "S": "RSSupportPlain", "B_SIZE": 256}),
    ("src/quadwt/mod.rs", "QWaveletTree", "rank_unchecked", "g_qwt256_rank_unchecked", {"T": "@T", "RS": "RSQVector", "S": "RSSupportPlain", "B_SIZE": 256}),
    ("src/quadwt/mod.rs", "QWaveletTree", "rank", "g_qwt256_rank", {"T": "@T", "RS": "RSQVector", "S": "RSSupportPlain", "B_SIZE": 256}),
    ("src/quadwt/mod.rs", "QWaveletTree", "select", "g_qwt256_select", {"T": "@T", "RS": "RSQVector", "S": "RSSupportPlain", "B_SIZE": 256}),
    ("src/quadwt/mod.rs", "QWaveletTree", "select_unchecked", "g_qwt256_select_unchecked", {"T": "@T", "RS": "RSQVector", "S": "RSSupportPlain", "B_SIZE": 256}),
    ("src/quadwt/mod.rs", "QWaveletTree", "len", "g_qwt512_len", {"T": "@T", "RS": "RSQVector", "S": "RSSupportPlain", "B_SIZE": 512}),
    ("src/quadwt/mod.rs", "QWaveletTree", "is_empty", "g_qwt512_is_empty", {"T": "@T", "RS": "RSQVector", "S": "RSSupportPlain", "B_SIZE": 512}),
    ("src/quadwt/mod.rs", "QWaveletTree", "n_levels", "g_qwt512_n_levels", {"T": "@T", "RS": "RSQVector", "S": "RSSupportPlain", "B_SIZE": 512}),
    ("src/quadwt/mod.rs", "QWaveletTree", "get_unchecked", "g_qwt512_get_unchecked", {"T": "@T", "RS": "RSQVector", "S": "RSSupportPlain", "B_SIZE": 512}),
    ("src/quadwt/mod.rs", "QWaveletTree", "get", "g_qwt512_get", {"T": "@T", "RS": "RSQVector", "S": "RSSupportPlain", "B_SIZE": 512}),
    ("src/quadwt/mod.rs", "QWaveletTree", "rank_unchecked", "g_qwt512_rank_unchecked", {"T": "@T", "RS": "RSQVector", "S": "RSSupportPlain", "B_SIZE": 512}),
    ("src/quadwt/mod.rs", "QWaveletTree", "rank", "g_qwt512_rank", {"T": "@T", "RS": "RSQVector", "S": "RSSupportPlain", "B_SIZE": 512}),
    ("src/quadwt/mod.rs", "QWaveletTree", "select", "g_qwt512_select", {"T": "@T", "RS": "RSQVector", "S": "RSSupportPlain", "B_SIZE": 512}),
    ("src/quadwt/mod.rs", "QWaveletTree", "select_unchecked", "g_qwt512_select_unchecked", {"T": "@T", "RS": "RSQVector", "S": "RSSupportPlain", "B_SIZE": 512}),
    # ---- group hqwt: HuffQWaveletTree walks
    ("src/quadwt/huffqwt.rs", "HuffQWaveletTree", "code_index", "g_hqwt256_code_index", {"T": "@T", "RS": "RSQVector", "S": "RSSupportPlain", "B_SIZE": 256}),
    ("src/quadwt/huffqwt.rs", "HuffQWaveletTree", "len", "g_hqwt256_len", {"T": "@T", "RS": "RSQVector", "S": "RSSupportPlain", "B_SIZE": 256}),
    ("src/quadwt/huffqwt.rs", "HuffQWaveletTree", "is_empty", "g_hqwt256_is_empty", {"T": "@T", "RS": "RSQVector", "S": "RSSupportPlain", "B_SIZE": 256}),
    ("src/quadwt/huffqwt.rs", "HuffQWaveletTree", "n_levels", "g_hqwt256_n_levels", {"T": "@T", "RS": "RSQVector", "S": "RSSupportPlain", "B_SIZE": 256}),
    ("src/quadwt/huffqwt.rs", "HuffQWaveletTree", "get_unchecked", "g_hqwt256_get_unchecked", {"T": "@T", "RS": "RSQVector", "S": "RSSupportPlain", "B_SIZE": 256}),
    ("src/quadwt/huffqwt.rs", "HuffQWaveletTree", "get", "g_hqwt256_get", {"T": "@T", "RS": "RSQVector", "S": "RSSupportPlain", "B_SIZE": 256}),
    ("src/quadwt/huffqwt.rs", "HuffQWaveletTree", "rank_unchecked", "g_hqwt256_rank_unchecked", {"T": "@T", "RS": "RSQVector", "S": "RSSupportPlain", "B_SIZE": 256}),
    ("src/quadwt/huffqwt.rs", "HuffQWaveletTree", "rank", "g_hqwt256_rank", {"T": "@T", "RS": "RSQVector", "S": "RSSupportPlain", "B_SIZE": 256}),
    ("src/quadwt/huffqwt.rs", "HuffQWaveletTree", "select", "g_hqwt256_select", {"T": "@T", "RS": "RSQVector", "S": "RSSupportPlain", "B_SIZE": 256}),
    ("src/quadwt/huffqwt.rs", "HuffQWaveletTree", "select_unchecked", "g_hqwt256_select_unchecked", {"T": "@T", "RS": "RSQVector", "S": "RSSupportPlain", "B_SIZE": 256}),
    ("src/quadwt/huffqwt.rs", "HuffQWaveletTree", "code_index", "g_hqwt512_code_index", {"T": "@T", "RS": "RSQVector", "S": "RSSupportPlain", "B_SIZE": 512}),
    ("src/quadwt/huffqwt.rs", "HuffQWaveletTree", "len", "g_hqwt512_len", {"T": "@T", "RS": "RSQVector", "S": "RSSupportPlain", "B_SIZE": 512}),
    ("src/quadwt/huffqwt.rs", "HuffQWaveletTree", "is_empty", "g_hqwt512_is_empty", {"T": "@T", "RS": "RSQVector", "S": "RSSupportPlain", "B_SIZE": 512}),
    ("src/quadwt/huffqwt.rs", "HuffQWaveletTree", "n_levels", "g_hqwt512_n_levels", {"T": "@T", "RS": "RSQVector", "S": "RSSupportPlain", "B_SIZE": 512}),
    ("src/quadwt/huffqwt.rs", "HuffQWaveletTree", "get_unchecked", "g_hqwt512_get_unchecked", {"T": "@T", "RS": "RSQVector", "S": "RSSupportPlain", "B_SIZE": 512}),
    ("src/quadwt/huffqwt.rs", "HuffQWaveletTree", "get", "g_hqwt512_get", {"T": "@T", "RS": "RSQVector", "S": "RSSupportPlain", "B_SIZE": 512}),
    ("src/quadwt/huffqwt.rs", "HuffQWaveletTree", "rank_unchecked", "g_hqwt512_rank_unchecked", {"T": "@T", "RS": "RSQVector", "S": "RSSupportPlain", "B_SIZE": 512}),
    ("src/quadwt/huffqwt.rs", "HuffQWaveletTree", "rank", "g_hqwt512_rank", {"T": "@T", "RS": "RSQVector", "S": "RSSupportPlain", "B_SIZE": 512}),
    ("src/quadwt/huffqwt.rs", "HuffQWaveletTree", "select", "g_hqwt512_select", {"T": "@T", "RS": "RSQVector", "S": "RSSupportPlain", "B_SIZE": 512}),
    ("src/quadwt/huffqwt.rs", "HuffQWaveletTree", "select_unchecked", "g_hqwt512_select_unchecked", {"T": "@T", "RS": "RSQVector", "S": "RSSupportPlain", "B_SIZE": 512}),
    # ---- group wt: binary WaveletTree walks (plain and Huffman-shaped), BRS = RSWide
    ("src/binwt/mod.rs", "WaveletTree", "bit_at", "g_wt_bit_at", {"T": "@T", "BRS": "RSWide", "COMPRESSED": False}),
    ("src/binwt/mod.rs", "WaveletTree", "len", "g_wt_len", {"T": "@T", "BRS": "RSWide", "COMPRESSED": False}),
    ("src/binwt/mod.rs", "WaveletTree", "is_empty", "g_wt_is_empty", {"T": "@T", "BRS": "RSWide", "COMPRESSED": False}),
    ("src/binwt/mod.rs", "WaveletTree", "n_levels", "g_wt_n_levels", {"T": "@T", "BRS": "RSWide", "COMPRESSED": False}),
    ("src/binwt/mod.rs", "WaveletTree", "get_unchecked", "g_wt_get_unchecked", {"T": "@T", "BRS": "RSWide", "COMPRESSED": False}),
    ("src/binwt/mod.rs", "WaveletTree", "get", "g_wt_get", {"T": "@T", "BRS": "RSWide", "COMPRESSED": False}),
    ("src/binwt/mod.rs", "WaveletTree", "rank_unchecked", "g_wt_rank_unchecked", {"T": "@T", "BRS": "RSWide", "COMPRESSED": False}),
    ("src/binwt/mod.rs", "WaveletTree", "rank", "g_wt_rank", {"T": "@T", "BRS": "RSWide", "COMPRESSED": False}),
    ("src/binwt/mod.rs", "WaveletTree", "select", "g_wt_select", {"T": "@T", "BRS": "RSWide", "COMPRESSED": False}),
    ("src/binwt/mod.rs", "WaveletTree", "select_unchecked", "g_wt_select_unchecked", {"T": "@T", "BRS": "RSWide", "COMPRESSED": False}),
    ("src/binwt/mod.rs", "WaveletTree", "has_code", "g_hwt_has_code", {"T": "@T", "BRS": "RSWide", "COMPRESSED": True}),
    ("src/binwt/mod.rs", "WaveletTree", "bit_at", "g_hwt_bit_at", {"T": "@T", "BRS": "RSWide", "COMPRESSED": True}),
    ("src/binwt/mod.rs", "WaveletTree", "len", "g_hwt_len", {"T": "@T", "BRS": "RSWide", "COMPRESSED": True}),
    ("src/binwt/mod.rs", "WaveletTree", "is_empty", "g_hwt_is_empty", {"T": "@T", "BRS": "RSWide", "COMPRESSED": True}),
    ("src/binwt/mod.rs", "WaveletTree", "n_levels", "g_hwt_n_levels", {"T": "@T", "BRS": "RSWide", "COMPRESSED": True}),
    ("src/binwt/mod.rs", "WaveletTree", "get_unchecked", "g_hwt_get_unchecked", {"T": "@T", "BRS": "RSWide", "COMPRESSED": True}),
    ("src/binwt/mod.rs", "WaveletTree", "get", "g_hwt_get", {"T": "@T", "BRS": "RSWide", "COMPRESSED": True}),
    ("src/binwt/mod.rs", "WaveletTree", "rank_unchecked", "g_hwt_rank_unchecked", {"T": "@T", "BRS": "RSWide", "COMPRESSED": True}),
    ("src/binwt/mod.rs", "WaveletTree", "rank", "g_hwt_rank", {"T": "@T", "BRS": "RSWide", "COMPRESSED": True}),
    ("src/binwt/mod.rs", "WaveletTree", "select", "g_hwt_select", {"T": "@T", "BRS": "RSWide", "COMPRESSED": True}),
    ("src/binwt/mod.rs", "WaveletTree", "select_unchecked", "g_hwt_select_unchecked", {"T": "@T", "BRS": "RSWide", "COMPRESSED": True}),
    # ---- group da: DArray (select through the inventories; SELECT0_SUPPORT false / true)
    ("src/darray/mod.rs", "DArray", "select", "g_da_select_ones", {"BIT": True}),
    ("src/darray/mod.rs", "DArray", "select", "g_da_select_zeros", {"BIT": False}),
    ("src/darray/mod.rs", "DArray", "count_ones", "g_da1_count_ones", {"SELECT0_SUPPORT": False}),
    ("src/darray/mod.rs", "DArray", "count_zeros", "g_da1_count_zeros", {"SELECT0_SUPPORT": False}),
    ("src/darray/mod.rs", "DArray", "len", "g_da1_len", {"SELECT0_SUPPORT": False}),
    ("src/darray/mod.rs", "DArray", "is_empty", "g_da1_is_empty", {"SELECT0_SUPPORT": False}),
    ("src/darray/mod.rs", "DArray", "get", "g_da1_get", {"SELECT0_SUPPORT": False}),
    ("src/darray/mod.rs", "DArray", "get_unchecked", "g_da1_get_unchecked", {"SELECT0_SUPPORT": False}),
    ("src/darray/mod.rs", "DArray", "select1", "g_da1_select1", {"SELECT0_SUPPORT": False, "BIT": True}),
    ("src/darray/mod.rs", "DArray", "select1_unchecked", "g_da1_select1_unchecked", {"SELECT0_SUPPORT": False, "BIT": True}),
    ("src/darray/mod.rs", "DArray", "select0", "g_da1_select0", {"SELECT0_SUPPORT": False, "BIT": False}),
    ("src/darray/mod.rs", "DArray", "select0_unchecked", "g_da1_select0_unchecked", {"SELECT0_SUPPORT": False, "BIT": False}),
    ("src/darray/mod.rs", "DArray", "count_ones", "g_da0_count_ones", {"SELECT0_SUPPORT": True}),
    ("src/darray/mod.rs", "DArray", "count_zeros", "g_da0_count_zeros", {"SELECT0_SUPPORT": True}),
    ("src/darray/mod.rs", "DArray", "len", "g_da0_len", {"SELECT0_SUPPORT": True}),
    ("src/darray/mod.rs", "DArray", "is_empty", "g_da0_is_empty", {"SELECT0_SUPPORT": True}),
    ("src/darray/mod.rs", "DArray", "get", "g_da0_get", {"SELECT0_SUPPORT": True}),
    ("src/darray/mod.rs", "DArray", "get_unchecked", "g_da0_get_unchecked", {"SELECT0_SUPPORT": True}),
    ("src/darray/mod.rs", "DArray", "select1", "g_da0_select1", {"SELECT0_SUPPORT": True, "BIT": True}),
    ("src/darray/mod.rs", "DArray", "select1_unchecked", "g_da0_select1_unchecked", {"SELECT0_SUPPORT": True, "BIT": True}),
    ("src/darray/mod.rs", "DArray", "select0", "g_da0_select0", {"SELECT0_SUPPORT": True, "BIT": False}),
    ("src/darray/mod.rs", "DArray", "select0_unchecked", "g_da0_select0_unchecked", {"SELECT0_SUPPORT": True, "BIT": False}),
    # ---- group utils: free functions of src/utils/mod.rs used by the constructors
    ("src/utils/mod.rs", None, "msb", "g_msb", {"T": "@T"}),
    ("src/utils/mod.rs", None, "stable_partition_of_4", "g_stable_partition_of_4", {"T": "@T"}),
    ("src/utils/mod.rs", None, "stable_partition_of_2", "g_stable_partition_of_2", {"T": "@T"}),
    # ---- group qvb: QVectorBuilder (construction of quad vectors)
    ("src/qvector/mod.rs", "QVectorBuilder", "with_capacity", "g_qvb_with_capacity", {}),
    ("src/qvector/mod.rs", "QVectorBuilder", "push", "g_qvb_push", {}),
    ("src/qvector/mod.rs", "QVectorBuilder", "build", "g_qvb_build", {}),
    ("src/qvector/mod.rs", "QVectorBuilder", "Extend::extend", "g_qvb_extend", {"T": "@T", "I": "[@T]"}),
    ("src/qvector/mod.rs", "QVectorBuilder", "FromIterator::from_iter", "g_qvb_from_iter", {"T": "@T", "I": "[@T]"}),
    ("src/qvector/mod.rs", "QVector", "FromIterator::from_iter", "g_qv_from_iter", {"T": "@T", "I": "[@T]"}),
    ("src/qvector/rs_qvector.rs", "RSQVector", "new", "g_rsq256_new", {"S": "RSSupportPlain", "B_SIZE": 256, "T": "@T", "I": "[@T]"}),
    ("src/qvector/rs_qvector.rs", "RSQVector", "new", "g_rsq512_new", {"S": "RSSupportPlain", "B_SIZE": 512, "T": "@T", "I": "[@T]"}),
    # ---- group bvm: BitVectorMut (the `&mut self` operations return the new values of the fields)
    ("src/bitvector/mod.rs", "DataLine", "set_symbol", "g_bline_set_symbol", {"__t3__": True}),
    ("src/bitvector/mod.rs", "BitVectorMut", "len", "g_bvm_len", {}),
    ("src/bitvector/mod.rs", "BitVectorMut", "is_empty", "g_bvm_is_empty", {}),
    ("src/bitvector/mod.rs", "BitVectorMut", "count_ones", "g_bvm_count_ones", {}),
    ("src/bitvector/mod.rs", "BitVectorMut", "count_zeros", "g_bvm_count_zeros", {}),
    ("src/bitvector/mod.rs", "BitVectorMut", "get_unchecked", "g_bvm_get_unchecked", {}),
    ("src/bitvector/mod.rs", "BitVectorMut", "get", "g_bvm_get", {}),
    ("src/bitvector/mod.rs", "BitVectorMut", "get_bits_unchecked", "g_bvm_get_bits_unchecked", {}),
    ("src/bitvector/mod.rs", "BitVectorMut", "get_bits", "g_bvm_get_bits", {}),
    ("src/bitvector/mod.rs", "BitVectorMut", "get_word", "g_bvm_get_word", {}),
    ("src/bitvector/mod.rs", "BitVectorMut", "push", "g_bvm_push", {}),
    ("src/bitvector/mod.rs", "BitVectorMut", "append_bits", "g_bvm_append_bits", {}),
    ("src/bitvector/mod.rs", "BitVectorMut", "extend_with_zeros", "g_bvm_extend_with_zeros", {}),
    ("src/bitvector/mod.rs", "BitVectorMut", "set", "g_bvm_set", {}),
    ("src/bitvector/mod.rs", "BitVectorMut", "set_bits", "g_bvm_set_bits", {}),
    ("src/bitvector/mod.rs", "BitVectorMut", "shrink_to_fit", "g_bvm_shrink_to_fit", {}),
    ("src/bitvector/mod.rs", "BitVector", "From::from", "g_bv_from_bvm", {}),
    ("src/bitvector/rs_wide.rs", "RSWide", "From::from", "g_rsw_from", {}),
    # ---- group craft: the code assignment of the Huffman-shaped quad tree
    ("src/quadwt/huffqwt.rs", None, "craft_wm_codes", "g_craft_wm_codes4", {}),
    ("src/binwt/mod.rs", None, "craft_wm_codes", "g_craft_wm_codes2", {}),
    # ---- group iters: the iterators over bit vectors
    ("src/bitvector/mod.rs", "BitVectorBitPositionsIter", "new", "g_pi1_new", {"BIT": True}),
    ("src/bitvector/mod.rs", "BitVectorBitPositionsIter", "with_pos", "g_pi1_with_pos", {"BIT": True}),
    ("src/bitvector/mod.rs", "BitVectorBitPositionsIter", "Iterator::next", "g_pi1_next", {"BIT": True, "Item": "usize"}),
    ("src/bitvector/mod.rs", "BitVectorBitPositionsIter", "new", "g_pi0_new", {"BIT": False}),
    ("src/bitvector/mod.rs", "BitVectorBitPositionsIter", "with_pos", "g_pi0_with_pos", {"BIT": False}),
    ("src/bitvector/mod.rs", "BitVectorBitPositionsIter", "Iterator::next", "g_pi0_next", {"BIT": False, "Item": "usize"}),
    ("src/bitvector/mod.rs", "BitVectorIter", "Iterator::next", "g_bvit_next", {"Item": "bool"}),
    ("src/bitvector/mod.rs", "BitVectorIter", "ExactSizeIterator::len", "g_bvit_len", {}),
    ("src/bitvector/mod.rs", "BitVectorIntoIter", "Iterator::next", "g_bvinto_next", {"Item": "bool"}),
    ("src/bitvector/mod.rs", "BitVectorIntoIter", "ExactSizeIterator::len", "g_bvinto_len", {}),
    ("src/bitvector/mod.rs", "BitVector", "ones", "g_bv_ones", {"BIT": True}),
    ("src/bitvector/mod.rs", "BitVector", "ones_with_pos", "g_bv_ones_with_pos", {"BIT": True}),
    ("src/bitvector/mod.rs", "BitVector", "zeros", "g_bv_zeros", {"BIT": False}),
    ("src/bitvector/mod.rs", "BitVector", "zeros_with_pos", "g_bv_zeros_with_pos", {"BIT": False}),
    ("src/bitvector/mod.rs", "BitVector", "iter", "g_bv_iter", {}),
    ("src/bitvector/mod.rs", "BitVectorMut", "ones", "g_bvm_ones", {"BIT": True}),
    ("src/bitvector/mod.rs", "BitVectorMut", "ones_with_pos", "g_bvm_ones_with_pos", {"BIT": True}),
    ("src/bitvector/mod.rs", "BitVectorMut", "zeros", "g_bvm_zeros", {"BIT": False}),
    ("src/bitvector/mod.rs", "BitVectorMut", "zeros_with_pos", "g_bvm_zeros_with_pos", {"BIT": False}),
    ("src/bitvector/mod.rs", "BitVectorMut", "iter", "g_bvm_iter", {}),
    # ---- group titers: the iterators over quad vectors and wavelet trees (the container held by value)
    ("src/qvector/mod.rs", "QVectorIterator", "Iterator::next", "g_qvit_next", {"QV": "QVector", "Item": "u8"}),
    ("src/lib.rs", "WTIterator", "Iterator::next", "g_qwtit256_next", {"T": "@T", "Item": "@T", "Q": "QWaveletTree", "RS": "RSQVector", "S": "RSSupportPlain", "B_SIZE": 256}),
    ("src/lib.rs", "WTIterator", "DoubleEndedIterator::next_back", "g_qwtit256_next_back", {"T": "@T", "Item": "@T", "Q": "QWaveletTree", "RS": "RSQVector", "S": "RSSupportPlain", "B_SIZE": 256}),
    ("src/lib.rs", "WTIterator", "ExactSizeIterator::len", "g_qwtit256_len", {"T": "@T", "Item": "@T", "Q": "QWaveletTree", "RS": "RSQVector", "S": "RSSupportPlain", "B_SIZE": 256}),
    ("src/lib.rs", "WTIterator", "Iterator::next", "g_qwtit512_next", {"T": "@T", "Item": "@T", "Q": "QWaveletTree", "RS": "RSQVector", "S": "RSSupportPlain", "B_SIZE": 512}),
    ("src/lib.rs", "WTIterator", "DoubleEndedIterator::next_back", "g_qwtit512_next_back", {"T": "@T", "Item": "@T", "Q": "QWaveletTree", "RS": "RSQVector", "S": "RSSupportPlain", "B_SIZE": 512}),
    ("src/lib.rs", "WTIterator", "ExactSizeIterator::len", "g_qwtit512_len", {"T": "@T", "Item": "@T", "Q": "QWaveletTree", "RS": "RSQVector", "S": "RSSupportPlain", "B_SIZE": 512}),
    ("src/lib.rs", "WTIterator", "Iterator::next", "g_hqwtit256_next", {"T": "@T", "Item": "@T", "Q": "HuffQWaveletTree", "RS": "RSQVector", "S": "RSSupportPlain", "B_SIZE": 256}),
    ("src/lib.rs", "WTIterator", "DoubleEndedIterator::next_back", "g_hqwtit256_next_back", {"T": "@T", "Item": "@T", "Q": "HuffQWaveletTree", "RS": "RSQVector", "S": "RSSupportPlain", "B_SIZE": 256}),
    ("src/lib.rs", "WTIterator", "ExactSizeIterator::len", "g_hqwtit256_len", {"T": "@T", "Item": "@T", "Q": "HuffQWaveletTree", "RS": "RSQVector", "S": "RSSupportPlain", "B_SIZE": 256}),
    ("src/lib.rs", "WTIterator", "Iterator::next", "g_hqwtit512_next", {"T": "@T", "Item": "@T", "Q": "HuffQWaveletTree", "RS": "RSQVector", "S": "RSSupportPlain", "B_SIZE": 512}),
    ("src/lib.rs", "WTIterator", "DoubleEndedIterator::next_back", "g_hqwtit512_next_back", {"T": "@T", "Item": "@T", "Q": "HuffQWaveletTree", "RS": "RSQVector", "S": "RSSupportPlain", "B_SIZE": 512}),
    ("src/lib.rs", "WTIterator", "ExactSizeIterator::len", "g_hqwtit512_len", {"T": "@T", "Item": "@T", "Q": "HuffQWaveletTree", "RS": "RSQVector", "S": "RSSupportPlain", "B_SIZE": 512}),
    ("src/lib.rs", "WTIterator", "Iterator::next", "g_wtit_next", {"T": "@T", "Item": "@T", "Q": "WaveletTree", "BRS": "RSWide", "COMPRESSED": False}),
    ("src/lib.rs", "WTIterator", "DoubleEndedIterator::next_back", "g_wtit_next_back", {"T": "@T", "Item": "@T", "Q": "WaveletTree", "BRS": "RSWide", "COMPRESSED": False}),
    ("src/lib.rs", "WTIterator", "ExactSizeIterator::len", "g_wtit_len", {"T": "@T", "Item": "@T", "Q": "WaveletTree", "BRS": "RSWide", "COMPRESSED": False}),
    ("src/lib.rs", "WTIterator", "Iterator::next", "g_hwtit_next", {"T": "@T", "Item": "@T", "Q": "WaveletTree", "BRS": "RSWide", "COMPRESSED": True}),
    ("src/lib.rs", "WTIterator", "DoubleEndedIterator::next_back", "g_hwtit_next_back", {"T": "@T", "Item": "@T", "Q": "WaveletTree", "BRS": "RSWide", "COMPRESSED": True}),
    ("src/lib.rs", "WTIterator", "ExactSizeIterator::len", "g_hwtit_len", {"T": "@T", "Item": "@T", "Q": "WaveletTree", "BRS": "RSWide", "COMPRESSED": True}),
    ("src/quadwt/mod.rs", "QWaveletTree", "iter", "g_qwt256_iter", {"T": "@T", "Q": "QWaveletTree", "RS": "RSQVector", "S": "RSSupportPlain", "B_SIZE": 256, "WITH_PREFETCH_SUPPORT": False}),
    ("src/quadwt/mod.rs", "QWaveletTree", "iter", "g_qwt512_iter", {"T": "@T", "Q": "QWaveletTree", "RS": "RSQVector", "S": "RSSupportPlain", "B_SIZE": 512, "WITH_PREFETCH_SUPPORT": False}),
    ("src/quadwt/huffqwt.rs", "HuffQWaveletTree", "iter", "g_hqwt256_iter", {"T": "@T", "Q": "HuffQWaveletTree", "RS": "RSQVector", "S": "RSSupportPlain", "B_SIZE": 256, "WITH_PREFETCH_SUPPORT": False}),
    ("src/quadwt/huffqwt.rs", "HuffQWaveletTree", "iter", "g_hqwt512_iter", {"T": "@T", "Q": "HuffQWaveletTree", "RS": "RSQVector", "S": "RSSupportPlain", "B_SIZE": 512, "WITH_PREFETCH_SUPPORT": False}),
    ("src/binwt/mod.rs", "WaveletTree", "iter", "g_wt_iter", {"T": "@T", "Q": "WaveletTree", "BRS": "RSWide", "COMPRESSED": False}),
    ("src/binwt/mod.rs", "WaveletTree", "iter", "g_hwt_iter", {"T": "@T", "Q": "WaveletTree", "BRS": "RSWide", "COMPRESSED": True}),
    ("src/quadwt/mod.rs", "QWaveletTree", "rank_prefetch_unchecked", "g_qwt256_rank_prefetch_unchecked", {"T": "@T", "RS": "RSQVector", "S": "RSSupportPlain", "B_SIZE": 256, "WITH_PREFETCH_SUPPORT": False}),
    ("src/quadwt/mod.rs", "QWaveletTree", "rank_prefetch", "g_qwt256_rank_prefetch", {"T": "@T", "RS": "RSQVector", "S": "RSSupportPlain", "B_SIZE": 256, "WITH_PREFETCH_SUPPORT": False}),
    ("src/quadwt/mod.rs", "QWaveletTree", "rank_prefetch_unchecked", "g_qwt512_rank_prefetch_unchecked", {"T": "@T", "RS": "RSQVector", "S": "RSSupportPlain", "B_SIZE": 512, "WITH_PREFETCH_SUPPORT": False}),
    ("src/quadwt/mod.rs", "QWaveletTree", "rank_prefetch", "g_qwt512_rank_prefetch", {"T": "@T", "RS": "RSQVector", "S": "RSSupportPlain", "B_SIZE": 512, "WITH_PREFETCH_SUPPORT": False}),
    # ---- group bvnew: the collecting constructors of the bit vectors
    ("src/bitvector/mod.rs", "BitVectorMut", "Extend#0::extend", "g_bvm_extend_bools", {"T": "[bool]"}),
    ("src/bitvector/mod.rs", "BitVectorMut", "Extend#1::extend", "g_bvm_extend_positions", {"T": "[usize]"}),
    ("src/bitvector/mod.rs", "BitVectorMut", "FromIterator#0::from_iter", "g_bvm_from_bools", {"T": "[bool]"}),
    ("src/bitvector/mod.rs", "BitVectorMut", "FromIterator#1::from_iter", "g_bvm_from_positions", {"T": "[usize]"}),
    ("src/bitvector/mod.rs", "BitVector", "FromIterator#0::from_iter", "g_bv_from_bools", {"T": "[bool]"}),
    ("src/quadwt/huffqwt.rs", "HuffQWaveletTree", "rank_prefetch_unchecked", "g_hqwt256_rank_prefetch_unchecked", {"T": "@T", "RS": "RSQVector", "S": "RSSupportPlain", "B_SIZE": 256, "WITH_PREFETCH_SUPPORT": False}),
    ("src/quadwt/huffqwt.rs", "HuffQWaveletTree", "rank_prefetch", "g_hqwt256_rank_prefetch", {"T": "@T", "RS": "RSQVector", "S": "RSSupportPlain", "B_SIZE": 256, "WITH_PREFETCH_SUPPORT": False}),
    ("src/quadwt/huffqwt.rs", "HuffQWaveletTree", "rank_prefetch_unchecked", "g_hqwt512_rank_prefetch_unchecked", {"T": "@T", "RS": "RSQVector", "S": "RSSupportPlain", "B_SIZE": 512, "WITH_PREFETCH_SUPPORT": False}),
    ("src/quadwt/huffqwt.rs", "HuffQWaveletTree", "rank_prefetch", "g_hqwt512_rank_prefetch", {"T": "@T", "RS": "RSQVector", "S": "RSSupportPlain", "B_SIZE": 512, "WITH_PREFETCH_SUPPORT": False}),
    # ---- group danew: construction of the DArray inventories
    ("src/darray/mod.rs", "Inventories", "flush_block", "g_da_flush_block", {}),
    ("src/darray/mod.rs", "Inventories", "new", "g_inv1_new", {"BIT": True}),
    ("src/darray/mod.rs", "Inventories", "new", "g_inv0_new", {"BIT": False}),
    ("src/darray/mod.rs", "DArray", "new", "g_da1_new", {"SELECT0_SUPPORT": False}),
    ("src/darray/mod.rs", "DArray", "new", "g_da0_new", {"SELECT0_SUPPORT": True}),
    ("src/darray/mod.rs", "DArray", "FromIterator#0::from_iter", "g_da1_from_bools", {"SELECT0_SUPPORT": False, "T": "[bool]"}),
    ("src/darray/mod.rs", "DArray", "FromIterator#0::from_iter", "g_da0_from_bools", {"SELECT0_SUPPORT": True, "T": "[bool]"}),
    # ---- group wtnew: the plain binary WaveletTree::new
    ("src/binwt/mod.rs", "WaveletTree", "new", "g_wt_new", {"T": "@T", "BRS": "RSWide", "COMPRESSED": False}),
    ("src/binwt/mod.rs", "WaveletTree", "FromIterator::from_iter", "g_wt_from_iter", {"T": "@T", "I": "[@T]", "BRS": "RSWide", "COMPRESSED": False}),
    ("src/binwt/mod.rs", "WaveletTree", "From::from", "g_wt_from_vec", {"T": "@T", "BRS": "RSWide", "COMPRESSED": False}),
    # ---- group qwtnew: QWaveletTree::new (the whole construction: levels, partitions, directories)
    ("src/quadwt/mod.rs", "QWaveletTree", "new", "g_qwt256_new", {"T": "@T", "RS": "RSQVector", "S": "RSSupportPlain", "B_SIZE": 256, "WITH_PREFETCH_SUPPORT": False}),
    ("src/quadwt/mod.rs", "QWaveletTree", "new", "g_qwt512_new", {"T": "@T", "RS": "RSQVector", "S": "RSSupportPlain", "B_SIZE": 512, "WITH_PREFETCH_SUPPORT": False}),
    ("src/quadwt/mod.rs", "QWaveletTree", "FromIterator::from_iter", "g_qwt256_from_iter", {"T": "@T", "I": "[@T]", "RS": "RSQVector", "S": "RSSupportPlain", "B_SIZE": 256, "WITH_PREFETCH_SUPPORT": False}),
    ("src/quadwt/mod.rs", "QWaveletTree", "FromIterator::from_iter", "g_qwt512_from_iter", {"T": "@T", "I": "[@T]", "RS": "RSQVector", "S": "RSSupportPlain", "B_SIZE": 512, "WITH_PREFETCH_SUPPORT": False}),
    ("src/quadwt/mod.rs", "QWaveletTree", "From::from", "g_qwt256_from_vec", {"T": "@T", "RS": "RSQVector", "S": "RSSupportPlain", "B_SIZE": 256, "WITH_PREFETCH_SUPPORT": False}),
    ("src/quadwt/mod.rs", "QWaveletTree", "From::from", "g_qwt512_from_vec", {"T": "@T", "RS": "RSQVector", "S": "RSSupportPlain", "B_SIZE": 512, "WITH_PREFETCH_SUPPORT": False}),
]

# group -> (source file, owner types or None, first index in TARGETS that belongs to T5)
T5_START = len(GL.TARGETS)
GROUPS = {
    "bv": ("src/bitvector/mod.rs", ("DataLine", "BitVector", "BitVectorMut@bv")),
    "rsn2": ("src/bitvector/rs_narrow.rs", None),
    "rsw2": ("src/bitvector/rs_wide.rs", None),
    "rss": ("src/qvector/rs_qvector/rs_support_plain.rs", None),
    "rsq": ("src/qvector/rs_qvector.rs", None),
    "qv2": ("src/qvector/mod.rs", ("QVector", "DataLine")),
    "qwt": ("src/quadwt/mod.rs", None),
    "hqwt": ("src/quadwt/huffqwt.rs", None),
    "wt": ("src/binwt/mod.rs", None),
    "da": ("src/darray/mod.rs", None),
    "bvm": ("src/bitvector/mod.rs", ("BitVectorMut", "DataLine@mut")),
    "qvb": ("src/qvector/mod.rs", ("QVectorBuilder", "QVector@from_iter")),
    "utils": ("src/utils/mod.rs", None),
    "qwtnew": ("src/quadwt/mod.rs", ("QWaveletTree@new",)),
    "wtnew": ("src/binwt/mod.rs", ("WaveletTree@new",)),
    "iters": ("src/bitvector/mod.rs", ("BitVectorBitPositionsIter", "BitVectorIter", "BitVectorIntoIter")),
    "craft": ("src/quadwt/huffqwt.rs", ("@craft",)),
    "titers": ("src/lib.rs", ("WTIterator", "QVectorIterator")),
    "danew": ("src/darray/mod.rs", ("Inventories", "DArray@new")),
    "bvnew": ("src/bitvector/mod.rs", ("@bvnew",)),
    "craft2": ("src/binwt/mod.rs", ("@craft",)),
}
# which generated files a group's file must import (T3 leaves and earlier T5 groups)
GROUP_IMPORTS = {
    "bv": ["LeavesUtils"],
    "rsn2": ["LeavesUtils", "LeavesRSN", "FnsBv"],
    "rsw2": ["LeavesUtils", "LeavesRSW", "FnsBv"],
    "rss": ["LeavesSB", "LeavesLine", "LeavesQV", "FnsQv2"],
    "qv2": ["LeavesLine", "LeavesQV"],
    "qwt": ["FnsRsq"],
    "hqwt": ["FnsRsq"],
    "wt": ["FnsBv", "FnsRsw2"],
    "da": ["LeavesUtils", "FnsBv"],
    "bvm": ["LeavesUtils", "FnsBv"],
    "qvb": ["LeavesLine", "LeavesQV", "FnsQv2"],
    "utils": ["LeavesUtils"],
    "wtnew": ["LeavesUtils", "FnsUtils", "FnsBv", "FnsBvm", "FnsRsw2", "FnsWt"],
    "iters": ["LeavesUtils", "FnsBv"],
    "craft": ["LeavesUtils"],
    "danew": ["LeavesUtils", "FnsBv", "FnsBvm", "FnsBvnew", "FnsIters"],
    "bvnew": ["LeavesUtils", "FnsBv", "FnsBvm"],
    "titers": ["LeavesUtils", "FnsQv2", "FnsRsq", "FnsQwt", "FnsHqwt", "FnsBv", "FnsRsw2", "FnsWt"],
    "craft2": ["LeavesUtils"],
    "qwtnew": ["LeavesUtils", "FnsUtils", "FnsQv2", "FnsQvb", "FnsRss", "FnsRsq", "FnsQwt"],
    "rsq": ["LeavesUtils", "LeavesSB", "LeavesLine", "LeavesQV", "FnsRss", "FnsQv2", "FnsQvb"],
}

GL.RESERVED |= set("""while_loop for_loop iter_loop Next Brk Ret Done Retd len concat ounwrap wshl wshr fsqrt fuel Some
    None option step fin r s v zwrap ziadd zisub zimul zineg zshamt Z left right inl inr pair fst snd S O nil cons xH xO xI N0 Npos
    Z0 Zpos Zneg eq_refl conj I opt_ltb nthN wT for_loop_rev checked_add obsearch_fst iteri_loop ofold push_at resize_with last_opt set_last setN
    last_ e_ omap max_opt clz copy_into tzcnt tz_pos omapf sort_by_fst sort_by_snd insert_by head""".split())


# ------------------------------------------------------------------------------ item index with trait info
def scan_items5(toks):
    """like gen_leaves.scan_items, but every fn is recorded with the trait of its impl block (None = inherent or
    free) and impl blocks record their const generic parameters"""
    fns, consts, structs = {}, {}, {}

    def is_op(i, s):
        return toks[i].kind == "op" and toks[i].text == s

    def find_open(i):
        while toks[i].kind != "eof":
            if is_op(i, "(") or is_op(i, "["):
                i = match_close(toks, i)
            elif is_op(i, "{") or is_op(i, ";"):
                return i
            i += 1
        return i

    def scan(i, end, owner, trait):
        while i < end:
            t = toks[i]
            if is_op(i, "#"):
                j = i + 2 if is_op(i + 1, "!") else i + 1
                i = match_close(toks, j) + 1 if is_op(j, "[") else i + 1
            elif t.kind == "id" and t.text == "impl" and owner is None:
                j = find_open(i)
                hdr = [x.text for x in toks[i + 1:j]]
                depth, flat = 0, []
                for x in hdr:
                    if x == "<":
                        depth += 1
                    elif x == ">":
                        depth -= 1
                    elif x == ">>":
                        depth -= 2
                    elif depth == 0:
                        flat.append(x)
                flat = flat[:flat.index("where")] if "where" in flat else flat
                if "for" in flat:
                    selfty, tr = flat[flat.index("for") + 1], flat[flat.index("for") - 1]
                else:
                    selfty, tr = (flat[0] if flat else None), None
                k = match_close(toks, j)
                scan(j + 1, k, selfty, tr)
                i = k + 1
            elif t.kind == "id" and t.text == "fn":
                j = find_open(i)
                fns.setdefault((owner, toks[i + 1].text), []).append((i, trait))
                i = (match_close(toks, j) if is_op(j, "{") else j) + 1
            elif t.kind == "id" and t.text == "const" and toks[i + 1].kind == "id" and is_op(i + 2, ":"):
                consts[(owner, toks[i + 1].text)] = i
                i = find_open(i) + 1
            elif t.kind == "id" and t.text == "struct" and owner is None:
                j = find_open(i)
                if is_op(j, "{"):
                    structs[toks[i + 1].text] = j
                    i = match_close(toks, j) + 1
                else:
                    i = j + 1
            elif t.kind == "id" and t.text == "trait" and owner is None:
                j = find_open(i)
                if is_op(j, "{"):
                    k = match_close(toks, j)
                    scan(j + 1, k, "trait " + toks[i + 1].text, None)
                    i = k + 1
                else:
                    i = j + 1
            elif t.kind == "id" and t.text == "mod" and owner is None:
                j = find_open(i)
                i = (match_close(toks, j) if is_op(j, "{") else j) + 1
            elif is_op(i, "{"):
                i = match_close(toks, i) + 1
            else:
                i += 1

    scan(0, len(toks) - 1, None, None)
    return fns, consts, structs


class Unit5(GL.Unit):
    def __init__(self, repo, rel):
        super().__init__(repo, rel)
        self.fns5, self.consts5, self.structs5 = scan_items5(self.toks)
        self._fields5 = {}
        self.cparams = {}   # const generic substitution in force (set per target)

    def struct_fields(self, name, where):
        if name not in self._fields5:
            j = self.structs5.get(name)
            if j is None:
                raise Unsupported("%s: struct %s not found in %s" % (where, name, self.rel))
            toks, i, end, fields = self.toks, j + 1, match_close(self.toks, j), []

            def op(k, t):
                return toks[k].kind == "op" and toks[k].text == t
            while i < end:
                if op(i, "#"):
                    i = match_close(toks, i + 1) + 1
                    continue
                if toks[i].kind == "id" and toks[i].text == "pub":
                    i = match_close(toks, i + 1) + 1 if op(i + 1, "(") else i + 1
                if toks[i].kind != "id" or not op(i + 1, ":"):
                    raise Unsupported("%s: struct %s: unsupported field syntax at line %d" % (where, name, toks[i].line))
                fname = toks[i].text
                p = Parser5(toks, i + 2, "%s (struct %s, field %s)" % (where, name, fname), {})
                try:
                    ty = p.type()
                except Unsupported:
                    ty = ("opaque", fname)
                    depth = 0
                    k = i + 2
                    while k < end and not (depth == 0 and op(k, ",")):
                        if op(k, "(") or op(k, "["):
                            k = match_close(toks, k) + 1
                            continue
                        depth += {"<": 1, ">": -1, ">>": -2}.get(toks[k].text, 0) if toks[k].kind == "op" else 0
                        k += 1
                    p.i = k
                fields.append((fname, ty))
                i = p.i
                if op(i, ","):
                    i += 1
            self._fields5[name] = fields
        return self._fields5[name]

    def const(self, owner, name, where):
        """associated consts may be defined in any impl block of the type; const generic parameters are
        replaced by the value of the target's monomorphisation"""
        key = (owner, name)
        if key not in self._consts and key in self.consts5:
            self.items["const"][key] = self.consts5[key]
        return super().const(owner, name, where)

    def ceval(self, e, t, owner, p):
        if e[0] == "var" and e[1] in self.cparams:
            return self.cparams[e[1]]
        return super().ceval(e, t, owner, p)


# ------------------------------------------------------------------------------ parser
class Parser5(Parser):
    def type(self):
        if self.accept("&"):
            if self.at("'"):
                self.i += 2          # &'a T: the lifetime does not change the value
            self.accept("mut")
            return self.type()
        if self.at("[") and True:
            # [T; K] or [T]
            self.expect("[")
            el = self.type()
            if self.accept(";"):
                n = self.expr()
                self.expect("]")
                if n[0] != "lit":
                    self.fail("array length (literal expected)")
                return ("array", el, n[1])
            self.expect("]")
            return ("slice", el)
        if self.accept("("):
            ts = []
            while not self.at(")"):
                ts.append(self.type())
                if not self.accept(","):
                    break
            self.expect(")")
            if not ts:
                return "unit"
            return ("tuple", tuple(ts)) if len(ts) > 1 else ts[0]
        t = self.peek()
        if t.kind == "id":
            name = self.subst.get(t.text, t.text)
            if name in INT or name == "bool" or name in SINT:
                self.i += 1
                return name
            if name in ("Option", "Box", "Vec") and self.at("<", 1):
                self.i += 2
                inner = self.type()
                self.close_angle()
                if name == "Option":
                    return ("option", inner)
                if name == "Box":
                    if not (isinstance(inner, tuple) and inner[0] == "slice"):
                        self.fail("Box of something else than a slice")
                    return inner
                return ("slice", inner)
            if name == "f64":
                self.i += 1
                return "f64"
            if name == "Self" and self.at("::", 1) and self.at("Item", 2):
                self.i += 3
                return ("struct", "Item" if getattr(self, "item_assoc", False) else "T")
            if name == "Self":
                self.i += 1
                return ("struct", "Self")
            if name == "HashMap" and self.at("<", 1):
                # HashMap<K, V>: the list of its (key, value) pairs in the (arbitrary) order its iterator yields them
                self.i += 2
                kt = self.type()
                self.expect(",")
                vt = self.type()
                self.close_angle()
                return ("slice", ("tuple", (kt, vt)))
            if name[:1].isupper() and name not in ("Self",):
                self.i += 1
                if self.at("<"):
                    depth = 0
                    while True:
                        tk = self.peek()
                        x = tk.text if tk.kind == "op" else ""
                        if x == ">>" and depth == 1:
                            # closes these arguments and one enclosing list: leave one `>` for the caller
                            self.t[self.i] = GL.Tok("op", ">", tk.line, tk.pos)
                            break
                        depth += {"<": 1, ">": -1, ">>": -2}.get(x, 0)
                        self.i += 1
                        if depth <= 0:
                            break
                return ("struct", name)
        self.fail("type `%s`" % self.peek().text)

    def close_angle(self):
        t = self.peek()
        if t.kind == "op" and t.text == ">":
            self.i += 1
        elif t.kind == "op" and t.text == ">>":
            # split: consume one '>' by rewriting the token
            self.t[self.i] = GL.Tok("op", ">", t.line, t.pos)
        else:
            self.fail("syntax (expected `>`)")

    def fn(self):
        self.expect("fn")
        name = self.ident()
        if self.at("<"):
            # const generic parameters of the function itself: monomorphised by the target's substitution
            depth = 0
            while True:
                x = self.peek().text
                depth += {"<": 1, ">": -1, ">>": -2}.get(x, 0) if self.peek().kind == "op" else 0
                if self.peek().kind == "id" and x not in ("const", "bool", "usize") and not x.isupper():
                    self.fail("generic function (only const generic parameters)")
                self.i += 1
                if depth <= 0:
                    break
        self.expect("(")
        selfkind, params = None, []
        while not self.at(")"):
            if self.at("&") and (self.at("self", 1) or (self.at("mut", 1) and self.at("self", 2))):
                self.i += 1
                selfkind = "mut" if self.accept("mut") else "ref"
                self.expect("self")
            elif self.at("self") or (self.at("mut") and self.at("self", 1)):
                # `self` taken by value: read like `&self` (the value is not used again by the caller)
                self.accept("mut")
                self.i += 1
                selfkind = "ref"
            else:
                self.accept("mut")
                p = self.ident()
                self.expect(":")
                if self.at("&") and self.at("mut", 1):
                    self.mutparams = getattr(self, "mutparams", []) + [p]
                params.append((p, self.type()))
            if not self.accept(","):
                break
        self.expect(")")
        ret = self.type() if self.accept("->") else "unit"
        if self.at("where"):
            while not self.at("{"):
                self.i += 1
        return name, selfkind, params, ret, self.block()

    def block(self):
        self.expect("{")
        stmts, tail = [], None
        while not self.accept("}"):
            if tail is not None:
                self.fail("syntax (expression not at the end of a block)")
            t = self.peek()
            if t.kind == "id" and t.text in ("match", "continue"):
                self.fail("`%s`" % t.text)
            if t.kind == "op" and t.text == "#" and self.at("[", 1):
                # attribute on a statement: #[cfg(pred)] keeps or drops the statement (target: x86_64, feature
                # "prefetch" on); every other attribute is ignored
                j = match_close(self.t, self.i + 1)
                toks = [x.text for x in self.t[self.i + 2:j]]
                self.i = j + 1
                keep = True
                if toks and toks[0] == "cfg":
                    keep = self.cfg_eval(toks[2:-1])
                if not keep:
                    # skip the attributed statement: a block or up to `;`
                    if self.at("{"):
                        self.i = match_close(self.t, self.i) + 1
                    else:
                        while not self.at(";"):
                            if self.at("{") or self.at("(") or self.at("["):
                                self.i = match_close(self.t, self.i)
                            self.i += 1
                        self.i += 1
                continue
            if self.accept("loop"):
                stmts.append(("while", ("bool", True), self.loop_body()))
                self.accept(";")
                continue
            if self.accept("while"):
                c = self.expr_nostruct()
                stmts.append(("while", c, self.loop_body()))
                self.accept(";")
            elif self.at("for") and self.peek(1).kind == "id" and self.at("in", 2) and self.at("&", 3) and self.at("mut", 4):
                # for x in &mut L { .. }: every element of the local list L is replaced by its value after the body
                self.i += 1
                xvar = self.ident()
                self.i += 3
                lst = self.expr_nostruct()
                body = self.loop_body()
                self.accept(";")
                stmts.append(("formut", xvar, lst, body))
                continue
            elif self.at("for") and self.peek(1).kind == "id" and self.at("in", 2) and self.peek(3).kind == "id" and self.at("{", 4):
                # for x in L { }: a sequence taken by value (an `IntoIterator` argument is modelled as the list of its items)
                xvar, lvar = self.peek(1).text, self.peek(3).text
                self.i += 4
                body = self.loop_body()
                self.accept(";")
                stmts.append(("foriter", None, xvar, ("var", lvar), body))
                continue
            elif self.at("for") and (self.at("(", 1) or self.at("&", 1) or (self.peek(1).kind == "id" and self.at("in", 2)
                                                                             and self.for_over_iter(3))):
                # for (i, &x) in L.iter().enumerate() { } / for &x in L.iter() { } / for x in L.iter() { }
                self.i += 1
                ivar = None
                if self.accept("("):
                    ivar = self.ident()
                    self.expect(",")
                    self.accept("&")
                    self.accept("mut")
                    xvar = self.ident()
                    self.expect(")")
                else:
                    self.accept("&")
                    self.accept("mut")
                    xvar = self.ident()
                self.expect("in")
                e = self.expr_nostruct()
                body = self.loop_body()
                self.accept(";")
                enum = False
                if e[0] == "mcall" and e[2] == "enumerate" and not e[3]:
                    e, enum = e[1], True
                if not (e[0] == "mcall" and e[2] == "iter" and not e[3]):
                    self.fail("`for` over something else than `L.iter()` / `L.iter().enumerate()` / a range")
                if enum != (ivar is not None):
                    self.fail("`for` pattern against its iterator")
                stmts.append(("foriter", ivar, xvar, e[1], body))
                continue
            elif self.accept("for"):
                self.accept("mut")
                x = self.ident()
                self.expect("in")
                rev = False
                if self.at("("):
                    # (lo..hi).rev()
                    self.expect("(")
                    lo = self.expr_nostruct()
                    self.expect("..")
                    hi = self.expr_nostruct()
                    self.expect(")")
                    self.expect(".")
                    ad = self.ident()
                    if ad == "step_by":
                        # for t in (lo..hi).step_by(k): t = lo, lo + k, .. below hi
                        self.expect("(")
                        stepe = self.expr()
                        self.expect(")")
                        stmts.append(("forstep", x, lo, hi, stepe, self.loop_body()))
                        self.accept(";")
                        continue
                    if ad != "rev":
                        self.fail("range adaptor (only `.rev()` / `.step_by(k)`)")
                    self.expect("(")
                    self.expect(")")
                    rev, incl = True, False
                else:
                    lo = self.expr_nostruct()
                    incl = False
                    if self.at("{"):
                        # for x in <expression>: an iterator value (a struct with a translated `next`), or a sequence
                        body = self.loop_body()
                        self.accept(";")
                        stmts.append(("foriter", None, x, lo, body))
                        continue
                    if self.accept("..="):
                        incl = True
                    else:
                        self.expect("..")
                    hi = self.expr_nostruct()
                stmts.append(("for", x, lo, hi, incl, self.loop_body()) + ((True,) if rev else ()))
                self.accept(";")
            elif self.accept("break"):
                self.expect(";")
                stmts.append(("break",))
                if not self.at("}"):
                    self.fail("statement after `break`")
            elif self.at("const") and self.peek(1).kind == "id" and self.at(":", 2):
                # a constant declared inside the function: an immutable local
                self.i += 1
                cname = self.ident()
                self.expect(":")
                cty = self.type()
                self.expect("=")
                stmts.append(("let", cname, cty, self.expr()))
                self.expect(";")
            elif self.accept("let"):
                self.accept("mut")
                if self.accept("("):
                    pat = []
                    while not self.at(")"):
                        self.accept("mut")
                        pat.append(self.ident())
                        if not self.accept(","):
                            break
                    self.expect(")")
                else:
                    pat = self.ident()
                ty = self.type() if self.accept(":") else None
                if self.accept(";"):
                    if not isinstance(pat, str):
                        self.fail("tuple pattern without initialiser")
                    stmts.append(("letdecl", pat, ty))
                    continue
                self.expect("=")
                init = self.expr()
                if self.accept(".."):
                    init = ("range", init, self.expr())       # let r = a..b;
                stmts.append(("let", pat, ty, init))
                self.expect(";")
            elif self.accept("return"):
                stmts.append(("return", None if self.at(";") or self.at("}") else self.expr()))
                self.accept(";")
                if not self.at("}"):
                    self.fail("statement after `return`")
            elif t.kind == "id" and t.text == "dbg" and self.at("!", 1) and self.at("(", 2):
                # dbg!(..); as a statement: prints to stderr, no effect on any value
                self.i = match_close(self.t, self.i + 2) + 1
                self.expect(";")
            elif t.kind == "id" and self.at("!", 1) and t.text in ("debug_assert_eq", "assert_eq"):
                self.i += 2
                self.expect("(")
                a = self.expr()
                self.expect(",")
                b = self.expr()
                if self.accept(","):
                    if self.peek().kind != "str" or "{" in self.peek().text:
                        self.fail("%s! message with format arguments" % t.text)
                    self.i += 1
                    self.accept(",")
                self.expect(")")
                self.accept(";")
                stmts.append(("macro", t.text[:-3], ("bin", "==", a, b)))
            elif t.kind == "id" and self.at("!", 1) and t.text not in ("if", "while", "match", "return", "for", "in"):
                if t.text not in ("debug_assert", "assert"):
                    self.fail("macro `%s!`" % t.text)
                self.i += 2
                self.expect("(")
                cond = self.expr()
                if self.accept(","):
                    if self.peek().kind != "str" or "{" in self.peek().text:
                        self.fail("%s! message with format arguments" % t.text)
                    self.i += 1
                    self.accept(",")
                self.expect(")")
                self.accept(";")
                stmts.append(("macro", t.text, cond))
            else:
                e = self.expr()
                if self.peek().kind == "op" and self.peek().text in GL.ASSIGN:
                    op = self.peek().text
                    self.i += 1
                    rhs = self.expr()
                    if op == "=" and self.accept(".."):
                        rhs = ("range", rhs, self.expr())      # r = a..b;
                    stmts.append(("assign", e, op[:-1] or None, rhs))
                    if not self.at("}"):
                        self.expect(";")
                elif self.at("}"):
                    tail = e
                elif e[0] in ("if", "block", "iflet"):
                    self.accept(";")
                    stmts.append(("expr", e))
                elif e[0] in ("mcall", "call") and self.at(";"):
                    self.i += 1
                    stmts.append(("call", e))
                elif e[0] == "try" and self.at(";"):
                    self.i += 1
                    stmts.append(("trystmt", e))
                else:
                    self.fail("expression statement")
        return ("block", stmts, tail)

    def for_over_iter(self, k):
        """the `for x in` header at offset k is followed by an expression ending in .iter() / .enumerate() before `{`"""
        j = self.i + k
        depth = 0
        last = []
        while self.t[j].kind != "eof":
            tx = self.t[j].text if self.t[j].kind in ("op", "id") else ""
            if tx in ("(", "["):
                j = match_close(self.t, j)
            elif tx == "{":
                break
            elif tx == "..":
                return False
            last.append(tx)
            j += 1
        return "iter" in last

    def cfg_eval(self, toks):
        """cfg predicate for the configuration the checks build: x86_64, feature "prefetch" enabled"""
        txt = "".join(toks)
        m = re.fullmatch(r'target_arch="([a-z0-9_]+)"', txt)
        if m:
            return m.group(1) == "x86_64"
        m = re.fullmatch(r'not\((.*)\)', txt)
        if m:
            return not self.cfg_eval([m.group(1)])
        m = re.fullmatch(r'feature="([a-z0-9_]+)"', txt)
        if m:
            return m.group(1) == "prefetch"
        self.fail("cfg predicate `%s`" % txt)

    def loop_body(self):
        """a loop body has type (): a trailing `if` / block without `;` is a statement"""
        _, stmts, tail = self.block()
        if tail is not None and tail[0] in ("if", "block", "iflet"):
            stmts, tail = stmts + [("expr", tail)], None
        if tail is not None and tail[0] == "mcall":
            stmts, tail = stmts + [("call", tail)], None      # a unit-valued method call without `;`
        return ("block", stmts, tail)

    def expr_nostruct(self):
        return self.expr(1)

    def primary(self):
        t0 = self.peek()
        if t0.kind == "id" and (t0.text == "Self" or (t0.text[:1].isupper() and not t0.text.isupper() and len(t0.text) > 1)) and self.at("{", 1) and \
                (self.peek(2).kind == "id" and (self.at(",", 3) or (self.at(":", 3) and not self.at("::", 3)) or self.at("}", 3))):
            sname = t0.text
            self.i += 2
            fields = []
            while not self.at("}"):
                f = self.ident()
                if self.accept(":"):
                    fields.append((f, self.expr()))
                else:
                    fields.append((f, ("var", f)))
                if not self.accept(","):
                    break
            self.expect("}")
            return ("structlit", sname, fields)
        if t0.kind == "str":
            self.i += 1
            return ("str", t0.text)
        if t0.kind == "id" and t0.text == "vec" and self.at("!", 1) and self.at("[", 2):
            self.i += 2          # vec![a, b, ..] / vec![e; n]: read as the array literal
            return self.primary()
        if t0.kind == "op" and t0.text == "[":
            # [e; n] (array repeat) or [a, b, ..]
            save = self.i
            self.i += 1
            first = self.expr() if not self.at("]") else None
            if first is not None and self.accept(";"):
                n = self.expr()
                self.expect("]")
                if n[0] != "lit":
                    return ("arrayrep", first, n)       # vec![e; n] with a computed length
                return ("array", [first] * n[1])
            self.i = save
        if t0.kind == "op" and t0.text == "|":
            # closure |pat| body  (only as the key function of binary_search_by_key)
            self.i += 1
            pat = []
            while not self.at("|"):
                pat.append(self.peek().text)
                self.i += 1
            self.expect("|")
            return ("closure", pat, self.expr())
        if t0.kind == "op" and t0.text == "||":
            self.fail("closure without parameters")
        if self.at("if") and not self.at("let", 1):
            # `if CONST {` / `if !CONST {` on a const generic bool of this monomorphisation: the dead arm is skipped
            # unparsed (it may use constructs outside the subset), an empty block stands for it
            j = self.i + 1
            neg = False
            if self.t[j].kind == "op" and self.t[j].text == "!":
                neg, j = True, j + 1
            cb = getattr(self, "cbools", {})
            if self.t[j].kind == "id" and self.t[j].text in cb and self.t[j + 1].kind == "op" and self.t[j + 1].text == "{":
                val = cb[self.t[j].text] != neg
                cond = ("var", self.t[j].text) if not neg else ("un", "!", ("var", self.t[j].text))
                self.i = j + 1

                def arm(live):
                    if live:
                        return self.block()
                    save = self.i
                    try:
                        return self.block()      # kept when it parses: its uses still constrain the types of locals
                    except Unsupported:
                        self.i = match_close(self.t, save) + 1
                        return ("block", [], None)
                th = arm(val)
                el = None
                if self.accept("else"):
                    if self.at("if"):
                        if val:
                            self.fail("`else if` after a live const arm")
                        el = ("block", [], self.primary())
                    else:
                        el = arm(not val)
                return ("if", cond, th, el)
        if self.at("if") and self.at("let", 1):
            self.i += 2
            if not (self.at("Some") and self.at("(", 1)):
                self.fail("`if let` pattern (only `Some(x)`)")
            self.i += 2
            x = self.ident()
            self.expect(")")
            self.expect("=")
            e = self.expr_nostruct()
            th = self.block()
            el = self.block() if self.accept("else") else None
            return ("iflet", x, e, th, el)
        return super().primary()

    def unary(self):
        if self.accept("&"):
            self.accept("mut")
            return ("ref", self.unary())
        if self.accept("&&"):
            self.accept("mut")
            return ("ref", ("ref", self.unary()))
        if self.accept("!"):
            return ("un", "!", self.unary())
        if self.accept("*"):
            return ("un", "*", self.unary())
        if self.accept("-"):
            return ("un", "-", self.unary())
        e = self.primary()
        while True:
            if self.accept("."):
                if self.peek().kind == "int":
                    e = ("tfield", e, int(self.peek().text))
                    self.i += 1
                    continue
                name = self.ident()
                if self.at("::") and self.at("<", 1):
                    # turbofish: skipped (the target type is what the context requires)
                    self.i += 1
                    depth = 0
                    while True:
                        tk = self.peek()
                        x = tk.text if tk.kind == "op" else ""
                        depth += {"<": 1, ">": -1, ">>": -2}.get(x, 0)
                        self.i += 1
                        if depth <= 0:
                            break
                e = ("mcall", e, name, self.args()) if self.at("(") else ("field", e, name)
            elif self.accept("["):
                if self.accept(".."):
                    self.expect("]")          # x[..]: the whole sequence
                    continue
                a = self.expr()
                if self.accept(".."):
                    b = self.expr()
                    self.expect("]")
                    e = ("slicer", e, a, b)
                else:
                    e = ("index", e, a)
                    self.expect("]")
            elif self.accept("?"):
                e = ("try", e)
            else:
                return e


# ------------------------------------------------------------------------------ translation
def is_list(t):
    return isinstance(t, tuple) and t[0] in ("array", "slice")


class World:
    """all units and the signatures of the functions translated so far"""

    def __init__(self, repo):
        self.repo, self.units, self.sigs, self.monosigs = repo, {}, {}, {}

    def unit(self, rel):
        if rel not in self.units:
            self.units[rel] = Unit5(self.repo, rel)
        return self.units[rel]

    def home(self, rel, name):
        """the unit that defines struct / free fn `name` mentioned in file rel"""
        u = self.unit(rel)
        if name in u.structs5 or (None, name) in u.fns5:
            return u
        h = HOME.get((rel, name))
        if h is None:
            return None
        return self.unit(h)


class FnT5(FnTranslator):
    def __init__(self, world, unit, owner, fname, coq, subst):
        self.world, self.unit, self.owner, self.coq = world, unit, owner, coq
        trait = None
        text_unit, text_owner = unit, owner
        if "@" in fname:
            # a provided (default) method of a trait, instantiated for the struct `owner`: name@Trait@file
            fname, tr_name, tr_file = fname.split("@")
            text_unit, text_owner = world.unit(tr_file), "trait " + tr_name
        self.trait_index = None
        if "::" in fname:
            trait, fname = fname.split("::")
            if "#" in trait:
                trait, k_ = trait.split("#")
                self.trait_index = int(k_)
        self.fname = fname
        self.where = "%s: fn %s%s" % (unit.rel, (owner + "::") if owner else "", fname)
        self.sigs = world.sigs
        self.sigs_coq = {s.coq for s in self.sigs.values()}
        self.subst = {}
        self.full_subst = dict(subst)
        self.needs_w = False
        self.tsubst = {k: v for k, v in subst.items() if isinstance(v, str)}
        self.monos = [tuple(sorted(subst.items(), key=str)), tuple(sorted((k, v) for k, v in subst.items() if not isinstance(v, str)))]
        self.nominal = {}
        subst = {k: v for k, v in subst.items() if not isinstance(v, str)}
        self.cparams = dict(subst)
        if unit.cparams != self.cparams:
            unit._consts = {}      # values of associated consts depend on the const generic parameters
        unit.cparams = self.cparams
        start = self.pick(text_unit, text_owner, fname, trait)
        p = Parser5(text_unit.toks, start, self.where, {})
        p.cbools = {k: v for k, v in self.cparams.items() if isinstance(v, bool)}
        p.item_assoc = "Item" in self.tsubst       # `Self::Item` of an iterator impl: the target names it
        _, self.selfkind, self.params, self.ret, self.body = p.fn()
        self.mutparams = list(getattr(p, "mutparams", []))
        self.body = self.inline_self_aliases(self.body)
        self.ret = self.sub_t(self.ret)
        self.params = [(n, self.sub_t(t)) for n, t in self.params]
        self.rec_params = {}
        self.body_full = None
        if any(isinstance(v, bool) for v in self.cparams.values()):
            self.body_full = self.body
            self.body = self.prune(self.body)
        body_open = next(j for j in range(start, p.i) if text_unit.toks[j].kind == "op" and text_unit.toks[j].text == "{")
        self.header = " ".join(text_unit.src[text_unit.toks[start].pos:text_unit.toks[body_open].pos].split())
        if text_unit is not unit:
            self.header += "   (provided method of %s in %s, for %s)" % (text_owner, text_unit.rel, owner)
        self.used = {t.text for t in text_unit.toks[start:p.i] if t.kind == "id"}
        self.ntmp = 0
        self.fields, self.field_coq, self.used_fields = {}, {}, []
        self.needs_fuel = False
        # leaf paths of self used by the function
        self.paths, self.path_coq, self.path_ty = [], {}, {}
        self.is_mut = self.selfkind == "mut"
        self.elem_nominal = {}
        if self.selfkind:
            used = []
            allp = self.leaf_paths(("struct", owner), unit)
            if self.is_mut:
                # a `&mut self` method takes every field of the struct and returns their new values (a tuple, in
                # declaration order, followed by the method's own result if it has one)
                allp = [(pp, tt) for pp, tt in allp if not (isinstance(tt, tuple) and tt[0] == "opaque")]
                used = [pp for pp, _ in allp]
            else:
                self.scan_paths(self.body, used)
                if self.self_moved(self.body):
                    # `self` itself is stored in a struct literal: every field of it is part of the value
                    used = [pp for pp, tt in allp if not (isinstance(tt, tuple) and tt[0] == "opaque")]
            self.paths = [pt for pt in allp if pt[0] in used]
            single = len(unit.struct_fields(owner, self.where)) == 1
            for path, ty in self.paths:
                coq = "_".join(path)
                while coq in GL.RESERVED or coq in self.sigs_coq:
                    coq += "_"
                self.path_coq[path] = coq
                self.path_ty[path] = ty
                self.field_coq["/".join(path)] = coq
            self.paths = [pt[0] for pt in self.paths]
            if self.is_mut:
                raw = dict(self.fields_of(owner)[1])
                for pp in self.paths:
                    ft = raw.get(pp[0]) if len(pp) == 1 else None
                    if is_list(ft) and isinstance(ft[1], tuple) and ft[1][0] == "struct" and not self.is_record(ft[1]):
                        self.elem_nominal["self." + ".".join(pp)] = (ft[1][1], self.struct_unit(ft[1][1]).rel)
                self.body = self.selfvars(self.body)

    def self_moved(self, x):
        if isinstance(x, tuple) and x and x[0] == "structlit":
            if any(fe == ("self",) for _, fe in x[2]):
                return True
        if isinstance(x, (tuple, list)):
            return any(self.self_moved(y) for y in x)
        return False

    def inline_self_aliases(self, body):
        """`let x = self.f.as_ref();` (a shared reference to a field that is itself a container): x is read as `self.f`"""
        if not (isinstance(body, tuple) and body and body[0] == "block"):
            return body
        stmts, alias = [], {}
        for st in body[1]:
            if st[0] == "let" and isinstance(st[1], str) and st[3] is not None:
                e = st[3]
                while e[0] == "ref":
                    e = e[1]
                if e[0] == "mcall" and e[2] == "as_ref" and not e[3] and e[1][0] == "field" and e[1][1] == ("self",):
                    alias[st[1]] = e[1]
                    continue
            stmts.append(st)
        if not alias:
            return body

        def sub(x):
            if isinstance(x, tuple) and len(x) == 2 and x[0] == "var" and x[1] in alias:
                return alias[x[1]]
            if isinstance(x, tuple):
                return tuple(sub(y) for y in x)
            if isinstance(x, list):
                return [sub(y) for y in x]
            return x
        return ("block", sub(stmts), sub(body[2]))

    def selfvars(self, e):
        """self.f (a field of the struct, for a `&mut self` method) -> the variable `self.f`"""
        if isinstance(e, list):
            return [self.selfvars(x) for x in e]
        if not isinstance(e, tuple) or not e:
            return e
        if e[0] == "field":
            names = self.chain(e)
            if names is not None:
                r = self.resolve_chain(names)
                if r[0] == "leaf" and r[1] in self.path_coq and len(names) == len(r[1]):
                    return ("var", "self." + ".".join(r[1]))
        return tuple(self.selfvars(x) if isinstance(x, (tuple, list)) else x for x in e)

    def pick(self, unit, owner, fname, trait):
        cands = unit.fns5.get((owner, fname), [])
        if trait:
            cands = [c for c in cands if c[1] == trait]
            if getattr(self, "trait_index", None) is not None and len(cands) > self.trait_index:
                cands = [sorted(cands)[self.trait_index]]      # several impls of one generic trait: by source order
        else:
            inh = [c for c in cands if c[1] is None]
            cands = inh if inh else cands
        if len(cands) != 1:
            raise Unsupported("%s: %s" % (self.where, "not found" if not cands else "ambiguous (%d definitions)" % len(cands)))
        return cands[0][0]

    # ---- structs and paths
    def struct_unit(self, name, rel=None):
        u = self.world.home(rel or self.unit.rel, name)
        if u is None or name not in u.structs5:
            self.fail("struct `%s` (not found; add its file to HOME)" % name)
        return u

    def sub_t(self, t):
        """generic type parameters replaced by the types of the monomorphisation"""
        if isinstance(t, tuple):
            if t[0] == "struct" and t[1] == "Self" and self.owner:
                return ("struct", self.owner)
            if t[0] == "struct" and t[1] in self.tsubst:
                v = self.tsubst[t[1]]
                if v.startswith("["):
                    return ("slice", v[1:-1])
                if v in INT or v == "bool":
                    return v
                return v if v.startswith("@") else ("struct", v)
            if t[0] in ("array", "slice", "option"):
                return (t[0], self.sub_t(t[1])) + tuple(t[2:])
            if t[0] == "tuple":
                return ("tuple", tuple(self.sub_t(x) for x in t[1]))
        return t

    def fields_of(self, sname, rel=None):
        u = self.struct_unit(sname, rel)
        if u.cparams != self.cparams:
            u._consts = {}
            u.cparams = self.cparams
        return u, [(n, self.sub_t(t)) for n, t in u.struct_fields(sname, self.where)]

    def is_record(self, t, rel=None):
        return isinstance(t, tuple) and t[0] == "struct" and len(self.fields_of(t[1], rel)[1]) != 1

    def newtype_inner(self, t, rel=None):
        """type a one-field struct is represented by (recursively), else t"""
        while isinstance(t, tuple) and t[0] == "struct":
            u, fl = self.fields_of(t[1], rel)
            if len(fl) != 1:
                return t
            t, rel = fl[0][1], u.rel
        return t

    def leaf_paths(self, t, unit, prefix=()):
        """[(path, type)] of the non-record leaves of struct type t, in declaration order"""
        out = []
        u, fl = self.fields_of(t[1], unit.rel)
        for fname, fty in fl:
            try:
                out += self.field_leaves(fname, fty, u, prefix)
            except Unsupported:
                out.append((prefix + (fname,), ("opaque", fname)))   # a field outside the subset: may exist, must not be used
        return out

    def model_leaves(self, t, unit):
        """leaf_paths without the fields outside the subset (prefetch hints, phantom data)"""
        return [(pp, tt) for pp, tt in self.leaf_paths(t, unit) if not (isinstance(tt, tuple) and tt[0] == "opaque")]

    def field_leaves(self, fname, fty, u, prefix):
        def rec(t):
            return isinstance(t, tuple) and t[0] == "struct" and self.is_record(t, u.rel)
        if rec(fty):
            return self.leaf_paths(fty, u, prefix + (fname,))
        if isinstance(fty, tuple) and fty[0] == "option" and rec(fty[1]):
            # Option<struct with several fields>: one optional value per field (all Some or all None)
            return [(pp, ("option", tt)) for pp, tt in self.leaf_paths(fty[1], u, prefix + (fname,))]
        if is_list(fty) and rec(fty[1]):
            # a slice of structs with several fields: one list per field of the struct
            return [(pp, ("slice", tt)) for pp, tt in self.leaf_paths(fty[1], u, prefix + (fname,))]
        if isinstance(fty, tuple) and fty[0] == "option" and is_list(fty[1]) and rec(fty[1][1]):
            # Option<Vec<struct with several fields>>: one optional list per field (all Some or all None)
            return [(pp, ("option", ("slice", tt))) for pp, tt in self.leaf_paths(fty[1][1], u, prefix + (fname,))]
        return [(prefix + (fname,), self.norm(fty, u.rel))]

    def norm(self, t, rel):
        """type with one-field structs replaced by their representation"""
        if isinstance(t, tuple):
            if t[0] == "struct":
                n = self.newtype_inner(t, rel)
                if n is t or (isinstance(n, tuple) and n[0] == "struct"):
                    return ("record", t[1], self.struct_unit(t[1], rel).rel)
                return self.norm(n, self.struct_unit(t[1], rel).rel)
            if t[0] in ("array", "slice"):
                return ("slice", self.norm(t[1], rel))
            if t[0] == "option":
                return ("option", self.norm(t[1], rel))
            if t[0] == "tuple":
                return ("tuple", tuple(self.norm(x, rel) for x in t[1]))
        return t

    def chain(self, e):
        """[f1, .., fk] when e is self.f1...fk, else None"""
        names = []
        while e[0] == "field":
            names.append(e[2])
            e = e[1]
        if e == ("self",):
            return list(reversed(names))
        return None

    def resolve_chain(self, names):
        """self.f1...fk -> ('leaf', path, type-after-remaining-projections) | ('record', prefix, struct name, rel)"""
        t, rel, path = ("struct", self.owner), self.unit.rel, []
        k = 0
        while k < len(names):
            if not (isinstance(t, tuple) and t[0] == "struct"):
                self.fail("field `.%s` of a non-struct" % names[k])
            u, fl = self.fields_of(t[1], rel)
            d = dict(fl)
            if names[k] not in d:
                self.fail("unknown field `%s` of %s" % (names[k], t[1]))
            if len(fl) == 1 and path and False:
                pass
            ft = d[names[k]]
            if self.is_record(("struct", t[1]), rel) or not path:
                # a step inside a record (or the first step from self): extends the path
                if len(fl) != 1 or not path:
                    path.append(names[k])
            t, rel = ft, u.rel
            k += 1
            if is_list(t) and isinstance(t[1], tuple) and t[1][0] == "struct" and self.is_record(t[1], rel):
                if k != len(names):
                    self.fail("field of a slice of structs")
                return ("soa", tuple(path), t[1][1], self.struct_unit(t[1][1], rel).rel)
            if isinstance(t, tuple) and t[0] == "option" and isinstance(t[1], tuple) and t[1][0] == "struct" and self.is_record(t[1], rel):
                if k != len(names):
                    self.fail("field of an optional struct")
                return ("orecord", tuple(path), t[1][1], self.struct_unit(t[1][1], rel).rel)
            if isinstance(t, tuple) and t[0] == "option" and is_list(t[1]) and isinstance(t[1][1], tuple) and t[1][1][0] == "struct" \
                    and self.is_record(t[1][1], rel):
                if k != len(names):
                    self.fail("field of an optional slice of structs")
                return ("osoa", tuple(path), t[1][1][1], self.struct_unit(t[1][1][1], rel).rel)
            if not (isinstance(t, tuple) and t[0] == "struct" and self.is_record(t, rel)):
                # leaf reached: the remaining names project inside one-field structs (identity)
                ty = self.norm(t, rel)
                for n in names[k:]:
                    if not (isinstance(t, tuple) and t[0] == "struct"):
                        self.fail("field `.%s` of a non-struct" % n)
                    u2, fl2 = self.fields_of(t[1], rel)
                    if len(fl2) != 1 or fl2[0][0] != n:
                        self.fail("field `.%s` of %s" % (n, t[1]))
                    t, rel = fl2[0][1], u2.rel
                return ("leaf", tuple(path), ty)
        return ("record", tuple(path), t[1], rel)

    def scan_paths(self, e, used):
        """first components... records the leaf paths the syntax tree e uses (directly or through calls)"""
        if not isinstance(e, (tuple, list)):
            return
        if isinstance(e, tuple) and e and e[0] == "mcall":
            recv = e[1]
            names = self.chain(recv)
            if names is not None:
                r = self.resolve_chain(names) if names else ("record", (), self.owner, self.unit.rel)
                if r[0] == "record":
                    sig = self.method_sig(r[2], r[3], e[2])
                    for p in sig.fields:
                        p = (p,) if isinstance(p, str) else tuple(p)
                        if r[1] + p not in used:
                            used.append(r[1] + p)
                    if getattr(sig, "fuel", False):
                        self.needs_fuel = True
                    for a in e[3]:
                        self.scan_paths(a, used)
                    return
            soa = self.soa_recv(recv)
            if soa is not None:
                r, ix = soa
                if e[2].startswith("prefetch"):
                    first = self.leaf_paths(("struct", r[2]), self.world.unit(r[3]), r[1])[0][0]
                    if first not in used:
                        used.append(first)
                else:
                    sig = self.method_sig(r[2], r[3], e[2])
                    for p in sig.fields:
                        p = (p,) if isinstance(p, str) else tuple(p)
                        if r[1] + p not in used:
                            used.append(r[1] + p)
                    if getattr(sig, "fuel", False):
                        self.needs_fuel = True
                self.scan_paths(ix, used)
                for a in e[3]:
                    self.scan_paths(a, used)
                return
        if isinstance(e, tuple) and e and e[0] == "mcall" and e[2] == "len" and self.soa_chain(e[1]) is not None:
            first = self.soa_leaves(self.soa_chain(e[1]))[0]
            if first not in used:
                used.append(first)
            return
        if isinstance(e, tuple) and e and e[0] == "field" and self.soa_recv(e[1]) is not None:
            r, ix = self.soa_recv(e[1])
            if r[1] + (e[2],) not in used:
                used.append(r[1] + (e[2],))
            self.scan_paths(ix, used)
            return
        if isinstance(e, tuple) and e and e[0] == "index" and self.soa_chain(e[1]) is not None:
            # an element of a slice of structs bound to a variable: all its fields may be read
            for pp in self.soa_leaves(self.soa_chain(e[1])):
                if pp not in used:
                    used.append(pp)
            self.scan_paths(e[2], used)
            return
        if isinstance(e, tuple) and e and e[0] == "field":
            names = self.chain(e)
            if names is not None:
                r = self.resolve_chain(names)
                if r[0] == "leaf":
                    if r[1] not in used:
                        used.append(r[1])
                    return
                if r[0] in ("osoa", "orecord", "record"):
                    for pp in self.soa_leaves(r):
                        if pp not in used:
                            used.append(pp)
                    return
                self.fail("struct-valued field `self.%s` used as a value" % ".".join(names))
        for x in e:
            self.scan_paths(x, used)

    def osoa_unwrap(self, e):
        """e = self.f.as_ref().unwrap() with f an optional slice of several-field structs: ('osoa', path, struct, rel)"""
        while e[0] == "ref" or (e[0] == "un" and e[1] == "*"):
            e = e[1] if e[0] == "ref" else e[2]
        if e[0] == "mcall" and e[2] == "unwrap" and not e[3] and e[1][0] == "mcall" and e[1][2] == "as_ref" and not e[1][3]:
            names = self.chain(e[1][1]) if e[1][1][0] == "field" else None
            if names:
                r = self.resolve_chain(names)
                if r[0] == "osoa":
                    return r
        return None

    def unwrap_osoa(self, r, cx):
        """the lists of an optional slice of structs, unwrapped (Fault Panic when None): {leaf path: coq name}"""
        lists = {}
        for pp in self.soa_leaves(r):
            nm = self.fresh()
            cx.lines.append("let! %s := %s in" % (nm, app("ounwrap", self.path_coq[pp])))
            lists[pp] = nm
        return lists

    def soa_chain(self, e):
        """e = self.f.. naming a slice of several-field structs: ('soa', path, struct, rel)"""
        while e[0] == "ref" or (e[0] == "un" and e[1] == "*"):
            e = e[1] if e[0] == "ref" else e[2]
        names = self.chain(e) if e[0] == "field" else None
        if names:
            r = self.resolve_chain(names)
            if r[0] == "soa":
                return r
        return None

    def soa_leaves(self, r):
        return [pp for pp, _ in self.leaf_paths(("struct", r[2]), self.world.unit(r[3]), r[1])]

    def bsearch_pattern(self, e):
        """X.binary_search_by_key(&k, |(x, _)| *x).expect("..") -> (X, k)"""
        if e[0] == "mcall" and e[2] == "expect" and len(e[3]) == 1 and e[3][0][0] == "str" and e[1][0] == "mcall" \
                and e[1][2] == "binary_search_by_key" and len(e[1][3]) == 2:
            k, clo = e[1][3]
            if clo[0] == "closure" and clo[1] in (["(", "x", ",", "_", ")"],) and clo[2] in (("un", "*", ("var", "x")), ("var", "x")):
                return e[1][1], (k[1] if k[0] == "ref" else k)
        return None

    def identity_chain(self, e):
        """conversions between owned sequence types that do not change the sequence of values: x.into_boxed_slice(),
        x.into_iter().map(|y| y.into_boxed_slice()).collect::<Vec<_>>().try_into().unwrap() -> x"""
        if e[0] == "mcall" and e[2] == "into_boxed_slice" and not e[3]:
            return e[1]
        if e[0] == "mcall" and e[2] == "unwrap" and not e[3] and e[1][0] == "mcall" and e[1][2] == "try_into" and not e[1][3]:
            c = e[1][1]
            if c[0] == "mcall" and c[2] == "collect" and c[1][0] == "mcall" and c[1][2] == "map" and len(c[1][3]) == 1:
                clo = c[1][3][0]
                src = c[1][1]
                if clo[0] == "closure" and len(clo[1]) == 1 and clo[2] == ("mcall", ("var", clo[1][0]), "into_boxed_slice", []) \
                        and src[0] == "mcall" and src[2] == "into_iter" and not src[3]:
                    return src[1]
        return None

    def fold_pattern(self, e):
        """L.iter().fold(init, |a, x| body) -> (L, init, closure)"""
        if e[0] == "mcall" and e[2] == "fold" and len(e[3]) == 2 and e[1][0] == "mcall" and e[1][2] == "iter" and not e[1][3]:
            clo = e[3][1]
            if clo[0] == "closure" and len(clo[1]) == 3 and clo[1][1] == ",":
                return e[1][1], e[3][0], clo
        return None

    def popcnt_pattern(self, e):
        """_popcnt64(x as i64) as usize -> x   (the x86_64 intrinsic counts the bits set in its argument)"""
        if e[0] == "cast" and e[2] == "usize" and e[1][0] == "call" and e[1][1] == ["_popcnt64"] and len(e[1][3]) == 1:
            a = e[1][3][0]
            if a[0] == "cast" and a[2] == "i64":
                return a[1]
        return None

    def soa_field(self, e, env):
        """e = X.f with X an element of a slice of several-field structs (self.v[ix] or a variable bound to one):
        (coq list of the field, index term or expression, element type)"""
        x = e[1]
        while x[0] == "ref" or (x[0] == "un" and x[1] == "*"):
            x = x[1] if x[0] == "ref" else x[2]
        if x[0] == "var" and x[1] in env and isinstance(env[x[1]][1], tuple) and env[x[1]][1][0] == "soaelem":
            r, ixv = env[x[1]][1][1], env[x[1]][1][2]
            lists = env[x[1]][1][3] if len(env[x[1]][1]) > 3 else None
            pp = r[1] + (e[2],)
            if pp not in self.path_ty:
                self.fail("field `.%s` of an element of self.%s" % (e[2], ".".join(r[1])))
            return (lists[pp] if lists else self.path_coq[pp]), ("term", ixv), self.elem_ty(pp)
        if x[0] == "index" and x[1][0] == "var" and x[1][1] in env and isinstance(env[x[1][1]][1], tuple) \
                and env[x[1][1]][1][0] == "soaval":
            r, lists = env[x[1][1]][1][1], env[x[1][1]][1][2]
            pp = r[1] + (e[2],)
            if pp not in lists:
                self.fail("field `.%s` of an element of self.%s" % (e[2], ".".join(r[1])))
            return lists[pp], ("expr", x[2]), self.elem_ty(pp)
        soa = self.soa_recv(x)
        if soa is not None:
            r, ix = soa
            pp = r[1] + (e[2],)
            if pp not in self.path_ty:
                self.fail("field `.%s` of an element of self.%s" % (e[2], ".".join(r[1])))
            return self.path_coq[pp], ("expr", ix), self.elem_ty(pp)
        return None

    def elem_ty(self, pp):
        t = self.path_ty[pp]
        if t[0] == "option":
            t = t[1]
        return t[1]

    def soa_recv(self, recv):
        """recv = self.f..[ix] with f.. a slice of several-field structs: (('soa', path, struct, rel), ix)"""
        while recv[0] == "ref" or (recv[0] == "un" and recv[1] == "*"):
            recv = recv[1] if recv[0] == "ref" else recv[2]
        if recv[0] == "index":
            names = self.chain(recv[1])
            if names:
                r = self.resolve_chain(names)
                if r[0] == "soa":
                    return r, recv[2]
        return None

    def find_sig(self, key):
        """the signature registered for key whose monomorphisation is compatible with (contained in) ours"""
        best = None
        for sub, sig in self.world.monosigs.get(key, []):
            if all(self.full_subst.get(k) == v for k, v in sub.items() if k != "Item"):
                if best is None or len(sub) > len(best[0]):
                    best = (sub, sig)
        if best:
            return best[1]
        return self.sigs.get(key)

    def method_sig(self, sname, rel, m):
        u = self.struct_unit(sname, rel)
        key = (u.rel, sname, m)
        sig = self.find_sig(key)
        if sig is None:
            self.fail("call to `%s::%s` (not a translated function)" % (sname, m))
        return sig

    # ---- typing
    def ty(self, e, exp, env):
        k = e[0]
        if k == "lit" and e[2] is None and isinstance(exp, str) and exp in SINT:
            return exp
        if k == "var" and e[1] in env and isinstance(env[e[1]][1], tuple) and env[e[1]][1][0] == "recparam":
            return ("record", env[e[1]][1][1], env[e[1]][1][2])
        if k == "var" and e[1] in env and isinstance(env[e[1]][1], tuple) and env[e[1]][1][0] == "soalocal":
            return ("slice", ("record", env[e[1]][1][1], env[e[1]][1][2]))
        if k == "field" and e[1][0] == "var" and e[1][1] in env and isinstance(env[e[1][1]][1], tuple) \
                and env[e[1][1]][1][0] == "recparam":
            lists = env[e[1][1]][1][3]
            if e[2] not in lists:
                self.fail("field `.%s` of the parameter `%s`" % (e[2], e[1][1]))
            return lists[e[2]][1]
        if k == "field" and e[1][0] in ("var", "index", "ref", "un") and self.soa_field(e, env) is not None:
            return self.soa_field(e, env)[2]
        if k == "index" and e[1][0] in ("field", "ref") and self.soa_chain(e[1]) is not None:
            return ("soaelem", self.soa_chain(e[1]), None)
        if k == "self":
            return ("record", self.owner, self.unit.rel)
        if k == "ref" or (k == "un" and e[1] == "*"):
            return self.ty(e[1] if k == "ref" else e[2], exp, env)
        if k == "var" and e[1] == "None" and e[1] not in env:
            return exp if isinstance(exp, tuple) and exp[0] == "option" else None
        if k == "var" and e[1] in self.cparams and e[1] not in env:
            return "bool" if isinstance(self.cparams[e[1]], bool) else "usize"
        if k == "field":
            names = self.chain(e)
            if names is not None:
                r = self.resolve_chain(names)
                if r[0] == "leaf":
                    return r[2]
                return ("record", r[2], r[3])
            if self.newtype_field(e, env):
                return self.ty(e[1], None, env)
            t = self.ty(e[1], None, env)
            self.fail("field `.%s` of a value of type %s" % (e[2], t))
        if k == "index":
            t = self.ty(e[1], None, env) if e[1][0] not in ("path",) and not (e[1][0] == "var" and e[1][1] not in env) else None
            if is_list(t):
                return t[1]
            return super().ty(e, exp, env)
        if k == "path" and len(e[1]) == 2 and e[1][0] in self.tsubst:
            u = self.struct_unit(self.tsubst[e[1][0]])
            return u.const(self.tsubst[e[1][0]], e[1][1], self.where)[0]
        if k == "iflet":
            if e[4] is None:
                self.fail("`if let` without `else` used as a value")
            ot = self.ty(e[2], None, env)
            if not (isinstance(ot, tuple) and ot[0] == "option"):
                self.fail("`if let Some(..)` on a value of type %s" % (ot,))
            env2 = dict(env)
            env2[e[1]] = (e[1], ot[1], -1)
            st, old = self.struct_type_of(e[2], env), self.nominal.get(e[1])
            if st is not None:
                self.nominal[e[1]] = st
            else:
                self.nominal.pop(e[1], None)
            try:
                t1 = self.ty(e[3], exp, env2)
            finally:
                if old is not None:
                    self.nominal[e[1]] = old
                else:
                    self.nominal.pop(e[1], None)
            return t1 or self.ty(e[4], exp, env)
        if k == "cast" and e[2] == "f64":
            return "f64"
        if k == "cast" and self.sqrt_pattern(e):
            return e[2]
        if k == "cast" and self.popcnt_pattern(e) is not None:
            return "usize"
        if k == "try":
            ot = self.ty(e[1], None, env)
            if not (isinstance(ot, tuple) and ot[0] == "option"):
                self.fail("`?` on a value of type %s" % (ot,))
            return ot[1]
        if k == "un" and e[1] == "-":
            t = self.ty(e[2], exp, env)
            if t not in SINT:
                self.fail("unary `-` at type %s" % (t,))
            return t
        if k == "path" and len(e[1]) == 3 and e[1][0] == "std" and e[1][1] in INT and e[1][2] == "MAX":
            return e[1][1]
        if self.popcnt_pattern(e) is not None:
            return "usize"
        if k == "str":
            return "str"
        if k == "structlit":
            return self.norm(("struct", self.owner if e[1] == "Self" else e[1]), self.unit.rel)
        if k == "array":
            if is_list(exp):
                return exp
            t0 = self.ty(e[1][0], None, env) if e[1] else None
            return ("slice", t0) if t0 is not None else None
        if self.identity_chain(e) is not None:
            return self.ty(self.identity_chain(e), exp, env)
        if self.fold_pattern(e) is not None:
            L, init, clo = self.fold_pattern(e)
            return self.ty(init, exp, env) or (exp if exp in INT else None)
        if k == "tfield":
            t = self.ty(e[1], None, env)
            if not (isinstance(t, tuple) and t[0] == "tuple" and e[2] < len(t[1])):
                self.fail("tuple field `.%d` of %s" % (e[2], t))
            return t[1][e[2]]
        if self.bsearch_pattern(e):
            return "usize"
        if k == "mcall" and e[2] in ("is_none", "is_some") and not e[3]:
            ot = self.ty(e[1], None, env)
            if isinstance(ot, tuple) and ot[0] == "option":
                return "bool"
        if k == "mcall" and e[2] == "map_or" and len(e[3]) == 2 and e[3][1][0] == "closure" and len(e[3][1][1]) == 1:
            return self.ty(e[3][0], exp, env) or exp
        if k == "mcall" and e[2] == "len" and not e[3] and self.soa_chain(e[1]) is not None:
            return "usize"
        if k == "mcall" and e[2] == "len" and not e[3] and e[1][0] == "var" and e[1][1] in env \
                and isinstance(env[e[1][1]][1], tuple) and env[e[1][1]][1][0] == "soaval":
            return "usize"
        if k == "mcall" and e[2] == "as_ref" and not e[3]:
            return self.ty(e[1], exp, env)
        if k == "call" and len(e[1]) == 2 and self.tsubst.get(e[1][0]) == "@T" and e[1][1] == "from" and len(e[3]) == 1:
            return ("option", "@T")

        if k == "call" and len(e[1]) == 2 and self.tsubst.get(e[1][0]) == "@T" and e[1][1] in ("zero", "one") and not e[3]:
            return "@T"
        if k == "call" and e[1] in (["Vec", "with_capacity"], ["Vec", "new"]):
            return exp if is_list(exp) else ("slice", "?")
        if k == "call" and len(e[1]) == 2 and e[1][1] == "default" and not e[3] and self.default_struct(e[1][0]) is not None:
            st = self.default_struct(e[1][0])
            return self.norm(("struct", st[0]), st[1])
        if k == "call" and len(e[1]) == 2 and e[1][1] in ("default", "new") and not e[3] and self.default_record(e[1][0]) is not None \
                and (e[1][1] == "default" or self.is_default_new(e[1][0])):
            st = self.default_record(e[1][0])
            return self.norm(("struct", st[0]), st[1])
        if k == "lit" and exp == "@T":
            return None
        if k == "mcall" and e[2] == "as_" and not e[3]:
            rt = self.ty(e[1], None, env)
            if rt == "@T":
                return exp if exp in INT else "usize"
            if rt in INT:
                return "@T"
            self.fail("`.as_()` on %s" % (rt,))
        if k == "mcall" and e[2] == "checked_add" and len(e[3]) == 1:
            rt = self.ty(e[1], None, env)
            if rt in INT:
                return ("option", rt)
        if k == "mcall" and self.soa_recv(e[1]) is not None:
            r, _ = self.soa_recv(e[1])
            return self.norm_ret(self.method_sig(r[2], r[3], e[2]))
        if k == "call" and len(e[1]) == 1 and self.tuple_struct(e[1][0]) is not None and len(e[3]) == len(self.tuple_struct(e[1][0])):
            return ("tuple", self.tuple_struct(e[1][0]))
        if k == "mcall" and e[2] == "count" and not e[3] and e[1][0] == "mcall" and e[1][2] == "iter" and not e[1][3] and is_list(self.ty(e[1][1], None, env)):
            return "usize"
        if k == "arrayrep":
            t0 = self.ty(e[1], exp[1] if is_list(exp) else None, env)
            return ("slice", t0) if t0 is not None else (exp if is_list(exp) else None)
        if self.map_collect(e, env) is not None:
            L, clo = self.map_collect(e, env)
            tl = self.ty(L, None, env)
            if not is_list(tl):
                self.fail("map over %s" % (tl,))
            sub, _ = self.closure_env(clo, tl[1], env)
            tb = self.ty(clo[2], exp[1] if is_list(exp) else None, sub)
            return ("slice", tb) if tb is not None else None
        if k == "call" and e[1] == ["std", "mem", "size_of"] and len(e[2]) == 1 and not e[3]:
            return "usize"
        if k == "mcall" and e[2] == "leading_zeros" and not e[3] and self.ty(e[1], None, env) == "@T":
            return "u32"
        if k == "mcall" and e[2] in ("is_some", "is_none") and not e[3] and isinstance(self.ty(e[1], None, env), tuple) and self.ty(e[1], None, env)[0] == "option":
            return "bool"
        if k == "mcall" and e[2] == "trailing_zeros" and not e[3] and self.ty(e[1], None, env) in INT:
            return "u32"
        if k == "mcall" and e[2] in ("max", "min") and len(e[3]) == 1 and (self.ty(e[1], None, env) in INT or self.ty(e[3][0], None, env) in INT):
            return self.ty(e[1], None, env) if self.ty(e[1], None, env) in INT else self.ty(e[3][0], None, env)
        if k == "mcall" and e[2] == "into" and not e[3] and isinstance(exp, tuple) and exp[0] == "record" \
                and self.record_value_type_nested(e[1], env) is not None:
            return exp
        if k == "mcall" and e[2] == "collect" and not e[3] and isinstance(exp, tuple) and exp[0] == "record" and self.collect_source(e, env) is not None:
            return exp
        if k == "mcall" and e[2] == "collect" and not e[3] and (exp is None or is_list(exp)) and self.collect_source(e, env) is not None:
            return self.ty(self.collect_source(e, env), None, env)      # collected into a Vec: the same sequence
        if k == "mcall" and e[2] == "max" and not e[3] and e[1][0] == "mcall" and e[1][2] == "iter" and not e[1][3] and is_list(self.ty(e[1][1], None, env)):
            return ("option", self.ty(e[1][1], None, env)[1])
        if k == "mcall":
            m = e[2]
            if m in ("count_ones", "leading_zeros", "wrapping_mul", "wrapping_add", "wrapping_sub"):
                return super().ty(e, exp, env)
            st = self.struct_type_of(e[1], env)
            if st is not None and e[1] != ("self",) and self.chain(e[1]) is None:
                return self.norm_ret(self.method_sig(st[0], st[1], m))
            rt = self.ty(e[1], None, env)
            if m == "get" and is_list(rt) and len(e[3]) == 1:
                return ("option", rt[1])
            if m in ("last", "first") and is_list(rt) and not e[3]:
                return ("option", rt[1])
            if m == "len" and is_list(rt) and not e[3]:
                return "usize"
            if m == "get_unchecked" and is_list(rt) and len(e[3]) == 1:
                return rt[1]
            if m == "len" and is_list(rt) and not e[3]:
                return "usize"
            if m == "is_empty" and is_list(rt) and not e[3]:
                return "bool"
            if m == "unwrap" and isinstance(rt, tuple) and rt[0] == "option" and not e[3]:
                return rt[1]
            if m in ("wrapping_shl", "wrapping_shr") and rt in INT and len(e[3]) == 1:
                return rt
            sig = self.recv_sig(e, env)
            return self.norm_ret(sig)
        if k == "call":
            segs = e[1]
            if segs == ["Some"] and len(e[3]) == 1:
                inner = exp[1] if isinstance(exp, tuple) and exp[0] == "option" else None
                t = self.ty(e[3][0], inner, env)
                return None if t is None else ("option", t)
            if segs == ["cast_to_u64_slice"] and len(e[3]) == 1:
                return ("slice", "u64")
            if len(segs) == 2 and segs[0] in INT and segs[1] in ("zero", "one"):
                return super().ty(e, exp, env)
            if segs[-1] == "size_of":
                return super().ty(e, exp, env)
            return self.norm_ret(self.static_sig(segs))
        return super().ty(e, exp, env)

    def later_type(self, name, rest, env):
        """type of `let name = <unsuffixed literal>;`: as T3, and also from the first constraint found in nested
        blocks and loops after it: `name = e` / `name op= e`, or `name op e` / `e op name` (op arithmetic, bitwise
        or a comparison) with e of a determined type.  rustc unifies all such constraints (they agree, the file
        compiles), so the first one found is the type."""
        try:
            t = super().later_type(name, rest, env)
        except Unsupported:
            t = None
        if t is not None:
            return t
        stmts, tail, exp = rest
        found = []

        def tyq(e, env):
            try:
                return self.ty(e, None, env)
            except Unsupported:
                return None

        def expr(e, env):
            if found or not isinstance(e, (tuple, list)):
                return
            if isinstance(e, tuple) and e and e[0] == "index" and e[2] == ("var", name):
                found.append("usize")
                return
            if isinstance(e, tuple) and e and e[0] == "structlit":
                for fname, fe in e[2]:
                    if fe == ("var", name):
                        ft = dict(self.fields_of(self.owner if e[1] == "Self" else e[1])[1]).get(fname)
                        ft = self.norm(ft, self.unit.rel) if isinstance(ft, tuple) else ft
                        if ft in INT or is_list(ft):
                            found.append(ft)
                            return
            if isinstance(e, tuple) and e and e[0] == "bin" and e[1] not in ("<<", ">>", "&&", "||"):
                for a, b in ((e[2], e[3]), (e[3], e[2])):
                    if a[0] == "index" and a[1] == ("var", name):
                        t = tyq(b, env)
                        if t in INT:
                            found.append(("slice", t))
                            return
            if isinstance(e, tuple) and e and e[0] in ("call", "mcall") and any(a in (("ref", ("var", name)), ("var", name)) for a in e[-1]):
                try:
                    sig = self.static_sig(e[1]) if e[0] == "call" else None
                    if sig is None and e[0] == "mcall":
                        st = self.struct_type_of(e[1], env)
                        sig = self.method_sig(st[0], st[1], e[2]) if st else None
                    if sig is not None:
                        for a, (_, pt) in zip(e[-1], sig.params):
                            if a in (("ref", ("var", name)), ("var", name)):
                                pt = self.norm(pt, getattr(sig, "rel", self.unit.rel)) if isinstance(pt, tuple) else pt
                                if pt in INT or pt in SINT or is_list(pt):
                                    found.append(pt)
                                    return
                except Unsupported:
                    pass
            if isinstance(e, tuple) and e and e[0] == "call" and ("var", name) in e[3]:
                try:
                    sig = self.static_sig(e[1])
                    for a, (_, pt) in zip(e[3], sig.params):
                        if a == ("var", name) and (pt in INT or pt in SINT):
                            found.append(pt)
                            return
                except Unsupported:
                    pass
            if isinstance(e, tuple) and e and e[0] == "bin" and e[1] not in ("<<", ">>", "&&", "||"):
                for a, b in ((e[2], e[3]), (e[3], e[2])):
                    if a == ("var", name):
                        t = tyq(b, env)
                        if t in INT:
                            found.append(t)
                            return
                        if t is None and b[0] == "field":
                            # `x.f op name` with x of a type the walk could not determine (code outside the subset): when
                            # every struct known here that has a field `f` gives it the same integer type, that type
                            cands = set()
                            units = [self.unit] + [self.world.unit(h) for (r, _), h in HOME.items() if r == self.unit.rel]
                            for u_ in units:
                                for sn in u_.structs5:
                                    try:
                                        for fn_, ft_ in u_.struct_fields(sn, self.where):
                                            if fn_ == b[2]:
                                                cands.add(ft_ if isinstance(ft_, str) else "?")
                                    except Unsupported:
                                        pass
                            if len(cands) == 1 and next(iter(cands)) in INT:
                                found.append(next(iter(cands)))
                                return
            if isinstance(e, tuple) and e and e[0] == "block":
                walk(e[1], dict(env))
                if e[2] is not None:
                    expr(e[2], env)
                return
            for x in e:
                expr(x, env)

        def walk(stmts, env):
            for n, s in enumerate(stmts):
                if found:
                    return
                if s[0] == "let":
                    expr(s[3], env)
                    names = s[1] if isinstance(s[1], list) else [s[1]]
                    if name in names:
                        return
                    if isinstance(s[1], str) and s[3] is not None and s[3][0] == "call" and s[3][1] in (["Vec", "with_capacity"], ["Vec", "new"]) \
                            and len(s[3][2]) == 1 and isinstance(s[3][2][0], tuple) and s[3][2][0][0] == "struct" and s[1] not in self.elem_nominal:
                        u_ = self.world.home(self.unit.rel, s[3][2][0][1])
                        if u_ is not None and s[3][2][0][1] in u_.structs5:
                            self.elem_nominal[s[1]] = (s[3][2][0][1], u_.rel)
                    try:
                        self.let_types(s, env, lambda a, b: env.__setitem__(a, (a, b, -1)), (stmts[n + 1:], None, None))
                    except Unsupported:
                        for a in names:
                            env.pop(a, None)
                elif s[0] == "assign":
                    if s[1] == ("var", name) and s[2] not in ("<<", ">>"):
                        t = tyq(s[3], env)
                        if t in INT:
                            found.append(t)
                            return
                    if s[1][0] == "index" and s[1][1] == ("var", name) and s[2] not in ("<<", ">>"):
                        t = tyq(s[3], env)
                        if t in INT:
                            found.append(("slice", t))
                            return
                    expr(s[1], env)
                    expr(s[3], env)
                elif s[0] == "call" and s[1][0] == "call":
                    expr(s[1], env)
                elif s[0] == "call":
                    if s[1][2] == "push" and s[1][1] == ("var", name) and len(s[1][3]) == 1:
                        t = tyq(s[1][3][0], env)
                        if t is not None:
                            found.append(("slice", t))
                            return
                    if s[1][2] == "push" and s[1][1][0] == "index" and s[1][1][1] == ("var", name) and len(s[1][3]) == 1:
                        t = tyq(s[1][3][0], env)
                        if t is not None:
                            found.append(("slice", ("slice", t)))
                            return
                    expr(s[1][3], env)
                elif s[0] == "while":
                    expr(s[1], env)
                    walk(s[2][1], dict(env))
                elif s[0] in ("for", "forstep"):
                    e2 = dict(env)
                    expr(s[2], env)
                    expr(s[3], env)
                    t = tyq(s[2], env) or tyq(s[3], env) or self.infer_index_var(s[1], s[5])
                    if t:
                        e2[s[1]] = (s[1], t, -1)
                    walk(s[5][1], e2)
                elif s[0] == "foriter":
                    e2 = dict(env)
                    tl = tyq(s[3], env)
                    if is_list(tl):
                        e2[s[2]] = (s[2], tl[1], -1)
                    if s[1]:
                        e2[s[1]] = (s[1], "usize", -1)
                    walk(s[4][1], e2)
                elif s[0] in ("expr", "macro", "return"):
                    expr(s[-1], env)
        env = dict(env)
        env.pop(name, None)
        walk(stmts, env)
        if not found and tail is not None:
            expr(tail, env)
        if not found and getattr(self, "body_full", None) is not None:
            # types are inferred before monomorphisation: the code pruned for this value of the const generic
            # parameters still constrains the variable
            full = self.body_full[1]
            for n, st in enumerate(full):
                if st[0] in ("let", "letdecl") and st[1] == name:
                    saved, self.body_full = self.body_full, None
                    try:
                        walk(full[n + 1:], env)
                        if not found and self.body_full is None and saved[2] is not None:
                            expr(saved[2], env)
                    finally:
                        self.body_full = saved
                    break
        return found[0] if found else None

    def let_types(self, s, env, bind, rest=None):
        _, pat, ann, init = s
        hint = self.HINTS.get((self.unit.rel, self.fname), {}).get(pat) if isinstance(pat, str) else None
        if hint is not None and ann is None:
            bind(pat, hint)
            return hint
        if ann is not None:
            a2 = self.sub_t(ann)
            if isinstance(a2, tuple):
                a2 = self.norm(a2, self.unit.rel)
            if a2 != ann:
                s = (s[0], pat, a2, init)
                ann = a2
        if ann is None and init is not None and init[0] == "array" and isinstance(pat, str) and rest is not None \
                and (self.ty(init, None, env) is None or "?" in repr(self.ty(init, None, env))):
            t = self.later_type(pat, rest, env)
            if not is_list(t):
                self.fail("element type of the array `%s`" % pat)
            bind(pat, t)
            return t
        if ann is None and init is not None and init[0] == "call" and init[1] in (["Vec", "with_capacity"], ["Vec", "new"]) \
                and isinstance(pat, str) and rest is not None:
            t = self.later_type(pat, rest, env)
            if not is_list(t):
                self.fail("element type of the Vec `%s` (no push found)" % pat)
            bind(pat, t)
            return t
        return super().let_types(s, env, bind, rest)

    def norm_ret(self, sig):
        return self.norm(sig.ret, getattr(sig, "rel", self.unit.rel)) if isinstance(sig.ret, tuple) else sig.ret

    def sqrt_pattern(self, e):
        """f64::sqrt(x as f64) as usize -> x"""
        if e[0] == "cast" and e[2] == "usize" and e[1][0] == "call" and e[1][1] == ["f64", "sqrt"] and len(e[1][3]) == 1:
            a = e[1][3][0]
            if a[0] == "cast" and a[2] == "f64":
                return a[1]
        return None

    def recv_sig(self, e, env):
        rt = self.ty(e[1], None, env)
        if isinstance(rt, tuple) and rt[0] in ("record", "recparam"):
            return self.method_sig(rt[1], rt[2], e[2])
        # a one-field struct value: find which struct by the syntactic type of the receiver
        st = self.struct_type_of(e[1], env)
        if st is None:
            self.fail("method `.%s()` on a value of type %s" % (e[2], rt))
        return self.method_sig(st[0], st[1], e[2])

    def newtype_field(self, e, env):
        """e = v.f where v denotes a one-field struct whose field is f (represented by the field itself)"""
        st = self.struct_type_of(e[1], env)
        if st is None:
            return False
        fl = self.world.unit(st[1]).struct_fields(st[0], self.where)
        return len(fl) == 1 and fl[0][0] == e[2]

    def struct_type_of(self, e, env):
        """(struct name, rel) of an expression denoting a one-field struct value (before representation)"""
        k = e[0]
        if k == "ref" or (k == "un" and e[1] == "*"):
            return self.struct_type_of(e[1] if k == "ref" else e[2], env)
        if k == "self":
            return (self.owner, self.unit.rel)
        if k == "var":
            return self.nominal.get(e[1]) if e[1] in env else None
        if k == "mcall" and e[2] == "unwrap" and not e[3] and e[1][0] == "mcall" and e[1][2] in ("last", "last_mut") and not e[1][3] \
                and e[1][1][0] == "var" and e[1][1][1] in self.elem_nominal:
            return self.elem_nominal[e[1][1][1]]
        if k == "call" and len(e[1]) == 2 and e[1][1] == "new" and self.default_struct(e[1][0]) is not None:
            return self.default_struct(e[1][0])
        if k == "field" and e[1][0] == "var" and e[1][1] in env and isinstance(env[e[1][1]][1], tuple) \
                and env[e[1][1]][1][0] == "recparam":
            ent = env[e[1][1]][1][3].get(e[2])
            if ent and isinstance(ent[2], tuple) and ent[2][0] == "struct":
                return (ent[2][1], self.struct_unit(ent[2][1], ent[3]).rel)
            return None
        if k == "block" and not e[1] and e[2] is not None:
            return self.struct_type_of(e[2], env)
        if k == "field":
            names = self.chain(e)
            if names is None:
                return None
            t, rel = self.raw_chain_type(names)
            return (t[1], self.struct_unit(t[1], rel).rel) if isinstance(t, tuple) and t[0] == "struct" else None
        if (k == "index" or (k == "mcall" and e[2] in ("get_unchecked", "get"))) and self.elem_struct(e[1], env) is not None:
            return self.elem_struct(e[1], env)
        if k == "index" or (k == "mcall" and e[2] in ("get_unchecked", "get")):
            names = self.chain(e[1])
            if names is None:
                return None
            t, rel = self.raw_chain_type(names)
            if is_list(t) and isinstance(t[1], tuple) and t[1][0] == "struct":
                return (t[1][1], self.struct_unit(t[1][1], rel).rel)
        return None

    def elem_struct(self, e, env):
        """(struct, rel) of the elements of the list expression e when they are one-field structs (a field of a struct
        parameter)"""
        if e[0] == "field" and e[1][0] == "var" and e[1][1] in env and isinstance(env[e[1][1]][1], tuple) \
                and env[e[1][1]][1][0] == "recparam":
            ent = env[e[1][1]][1][3].get(e[2])
            if ent and is_list(ent[2]) and isinstance(ent[2][1], tuple) and ent[2][1][0] == "struct":
                return (ent[2][1][1], self.struct_unit(ent[2][1][1], ent[3]).rel)
        names = self.chain(e) if e[0] == "field" else None
        if names:
            t, rel = self.raw_chain_type(names)
            if is_list(t) and isinstance(t[1], tuple) and t[1][0] == "struct" and not self.is_record(t[1], rel):
                return (t[1][1], self.struct_unit(t[1][1], rel).rel)
        return None

    def raw_chain_type(self, names):
        t, rel = ("struct", self.owner), self.unit.rel
        for n in names:
            if not (isinstance(t, tuple) and t[0] == "struct"):
                self.fail("field `.%s` of a non-struct" % n)
            u, fl = self.fields_of(t[1], rel)
            d = dict(fl)
            if n not in d:
                self.fail("unknown field `%s`" % n)
            t, rel = d[n], u.rel
        return t, rel

    def static_sig(self, segs):
        if len(segs) == 1:
            u = self.world.home(self.unit.rel, segs[0])
            key = (u.rel if u else self.unit.rel, None, segs[0])
        elif len(segs) == 2:
            owner = self.owner if segs[0] == "Self" else segs[0]
            if owner in self.tsubst and not self.tsubst[owner].startswith(("@", "[")):
                owner = self.tsubst[owner]       # a type parameter of the monomorphisation (S::new, RS::from)
            u = self.world.home(self.unit.rel, owner)
            key = (u.rel if u else self.unit.rel, owner, segs[1])
        else:
            self.fail("call `%s`" % "::".join(segs))
        sig = self.find_sig(key)
        if sig is None:
            hint = self.CALL_HINTS.get((self.unit.rel, self.fname), {}).get(getattr(self, "cur_let", None))
            if hint is not None:
                for sub, sg in self.world.monosigs.get(key, []):
                    if all(sub.get(k_) == v_ for k_, v_ in hint.items()):
                        return sg
        if sig is None:
            self.fail("call to `%s` (not a translated function)" % "::".join(segs))
        return sig

    # ---- expressions
    def emit(self, e, exp, cx):
        k, env = e[0], cx.env
        if k == "var" and e[1] in env and isinstance(env[e[1]][1], tuple) and env[e[1]][1][0] in ("recparam", "soalocal"):
            # a struct value (parameter or local) as a whole: the tuple of its fields (a vector of structs: of its lists)
            return "(" + ", ".join(x[0] for x in env[e[1]][1][3].values()) + ")", True
        if k == "field" and e[1][0] == "var" and e[1][1] in env and isinstance(env[e[1][1]][1], tuple) \
                and env[e[1][1]][1][0] == "recparam":
            lists = env[e[1][1]][1][3]
            if e[2] not in lists:
                self.fail("field `.%s` of the parameter `%s`" % (e[2], e[1][1]))
            return lists[e[2]][0], True
        if k == "field" and e[1][0] in ("var", "index", "ref", "un") and self.soa_field(e, env) is not None:
            lst, ix, _ = self.soa_field(e, env)
            if ix[0] == "term":
                iv = ix[1]
            else:
                self.need(ix[1], "usize", env, "usize")
                iv = self.val(ix[1], "usize", cx)
            return app("idx", lst, iv), False
        if k == "lit" and self.ty(e, exp, env) in SINT:
            t = self.ty(e, exp, env)
            if e[1] >= 2 ** (SINT[t] - 1):
                self.fail("literal %s out of range for %s" % (e[3], t))
            return "%d%%Z" % e[1], True
        if k == "cast" and e[2] != "f64" and not self.sqrt_pattern(e) and self.popcnt_pattern(e) is None \
                and (e[2] in SINT or self.ty(e[1], None, env) in SINT):
            src = self.ty(e[1], None, env)
            if src is None:
                self.fail("cast of an unsuffixed literal")
            a = self.val(e[1], None, cx)
            if e[2] in SINT and src in INT:
                return app("zwrap", str(SINT[e[2]]), app("Z.of_N", a)), True
            if e[2] in INT and src in SINT:
                return app("Z.to_N", "Z.modulo %s (2 ^ %d)%%Z" % (paren(a), INT[e[2]])), True
            if e[2] in SINT and src in SINT:
                return (a if SINT[e[2]] >= SINT[src] else app("zwrap", str(SINT[e[2]]), a)), True
            self.fail("cast from %s to %s" % (src, e[2]))
        if k == "ref" or (k == "un" and e[1] == "*"):
            return self.emit(e[1] if k == "ref" else e[2], exp, cx)
        if k == "un" and e[1] == "-":
            t = self.ty(e, exp, env)
            a = self.val(e[2], t, cx)
            return app("zineg", str(SINT[t]), a), False
        if k == "path" and len(e[1]) == 3 and e[1][0] == "std" and e[1][1] in INT and e[1][2] == "MAX":
            return "%s - 1" % pow2(INT[e[1][1]]), True
        if self.popcnt_pattern(e) is not None:
            x = self.popcnt_pattern(e)
            self.need(x, "u64", env, "u64")
            return app("popcount", self.val(x, "u64", cx)), True
        if k == "structlit":
            given = dict(e[2])
            vals = []
            sname = self.owner if e[1] == "Self" else e[1]
            su, fl = self.fields_of(sname)
            leaves = self.model_leaves(("struct", sname), su)
            for fname, fty in fl:
                mine = [(pp, tt) for pp, tt in leaves if pp[0] == fname]
                if fname not in given:
                    self.fail("struct literal without the field `%s`" % fname)
                if not mine:
                    continue          # a field outside the subset (prefetch hints): not part of the value's model
                fe = given[fname]
                ent = env.get(fe[1]) if fe[0] == "var" else None
                if (fe == ("var", "None") and "None" not in env) or (ent is not None and ent[1] == ("noneconst",)):
                    if not all(isinstance(tt, tuple) and tt[0] == "option" for _, tt in mine):
                        self.fail("`None` for the field `%s`" % fname)
                    vals += ["None"] * len(mine)
                elif ent is not None and isinstance(ent[1], tuple) and ent[1][0] == "optrecord":
                    if len(ent[1][3]) != len(mine) or not all(isinstance(tt, tuple) and tt[0] == "option" for _, tt in mine):
                        self.fail("optional struct for the field `%s`" % fname)
                    vals += ["(Some %s)" % x for x in ent[1][3]]
                elif fe == ("self",) and self.selfkind and not self.is_mut:
                    want = [pp for pp, _ in self.model_leaves(("struct", self.owner), self.unit)]
                    if len(want) != len(mine) or any(pp not in self.path_coq for pp in want):
                        self.fail("`self` stored in the field `%s`" % fname)
                    vals += [self.path_coq[pp] for pp in want]
                elif ent is not None and isinstance(ent[1], tuple) and ent[1][0] in ("recparam", "soalocal"):
                    got = list(ent[1][3].values())
                    if len(got) != len(mine):
                        self.fail("struct-valued field `%s` of a struct literal" % fname)
                    vals += [x[0] for x in got]
                elif len(mine) > 1 or len(mine[0][0]) > 1:
                    if fe[0] == "array" and is_list(fty):
                        # vec![e1, e2, ..] of several-field structs: one list per field
                        cols = []
                        for el in fe[1]:
                            t = self.record_value_type_nested(el, env)
                            if t is None:
                                self.fail("element of the struct-valued field `%s`" % fname)
                            v, pure = self.emit(el, t, cx)
                            tmp = [self.fresh() for _ in mine]
                            cx.lines.append(("let '(%s) := %s in" if pure else "let! (%s) := %s in") % (", ".join(tmp), v))
                            cols.append(tmp)
                        for j in range(len(mine)):
                            vals.append("[" + "; ".join(c[j] for c in cols) + "]")
                    else:
                        self.fail("struct-valued field `%s` of a struct literal (only a struct variable moved in)" % fname)
                else:
                    nt = mine[0][1]
                    self.need(fe, nt, env, nt)
                    vals.append(self.val(fe, nt, cx))
            return ("(" + ", ".join(vals) + ")") if len(vals) != 1 else vals[0], True
        if k == "array":
            t = self.ty(e, exp, env)
            if not is_list(t):
                self.fail("array literal whose type is not given")
            return "[" + "; ".join(self.val(x, t[1], cx) for x in e[1]) + "]", True
        if self.identity_chain(e) is not None:
            return self.emit(self.identity_chain(e), exp, cx)
        if self.fold_pattern(e) is not None:
            L, init, clo = self.fold_pattern(e)
            ta = self.need(e, exp, env)
            tl = self.ty(L, None, env)
            if not is_list(tl):
                self.fail("fold over %s" % (tl,))
            lv = self.val(L, None, cx)
            iv = self.val(init, ta, cx)
            a, x = clo[1][0], clo[1][2]
            sub = Cx(self, env, cx.depth + 1)
            ac, xc = sub.bind(a, ta), sub.bind(x, tl[1])
            body = self.block_val(clo[2], ta, sub)
            return "ofold (fun %s %s =>\n%s) %s %s" % (ac, xc, "\n".join("    " + l for b in body for l in b.split("\n")), paren(lv), paren(iv)), False
        if k == "tfield":
            t = self.ty(e[1], None, env)
            self.ty(e, exp, env)
            a = self.val(e[1], None, cx)
            if len(t[1]) != 2:
                self.fail("field of a tuple that is not a pair")
            return app("fst" if e[2] == 0 else "snd", a), True
        if self.bsearch_pattern(e):
            X, kx = self.bsearch_pattern(e)
            tl = self.ty(X, None, env)
            if not (is_list(tl) and isinstance(tl[1], tuple) and tl[1][0] == "tuple" and len(tl[1][1]) == 2 and tl[1][1][0] in INT):
                self.fail("binary_search_by_key on %s" % (tl,))
            self.need(kx, tl[1][1][0], env, tl[1][1][0])
            a = self.val(X, None, cx)
            kv = self.val(kx, tl[1][1][0], cx)
            return app("obsearch_fst", a, kv), False
        if k == "mcall" and e[2] == "map_or" and len(e[3]) == 2 and e[3][1][0] == "closure" and len(e[3][1][1]) == 1:
            ot = self.ty(e[1], None, env)
            if not (isinstance(ot, tuple) and ot[0] == "option"):
                self.fail("`.map_or(..)` on %s" % (ot,))
            t = self.need(e, exp, env)
            ov = self.val(e[1], None, cx)
            dv = self.val(e[3][0], t, cx)
            sub = Cx(self, env, cx.depth + 1)
            xc = sub.bind(e[3][1][1][0], ot[1])
            body = self.block_val(e[3][1][2], t, sub)
            if len(body) == 1 and body[0].startswith("Val "):
                return "match %s with None => %s | Some %s => %s end" % (ov, dv, xc, body[0][4:]), True
            return "(match %s with\n| None => Val %s\n| Some %s =>\n%s\nend)" % (ov, paren(dv), xc, "\n".join("    " + l for b in body for l in b.split("\n"))), False
        if k == "mcall" and e[2] in ("is_none", "is_some") and not e[3] and isinstance(self.ty(e[1], None, env), tuple) \
                and self.ty(e[1], None, env)[0] == "option":
            a = self.val(e[1], None, cx)
            return ("match %s with None => true | Some _ => false end" if e[2] == "is_none"
                    else "match %s with None => false | Some _ => true end") % a, True
        if k == "mcall" and e[2] == "len" and not e[3] and self.soa_chain(e[1]) is not None:
            first = self.soa_leaves(self.soa_chain(e[1]))[0]
            return app("len", self.path_coq[first]), True
        if k == "mcall" and e[2] == "len" and not e[3] and e[1][0] == "var" and e[1][1] in env \
                and isinstance(env[e[1][1]][1], tuple) and env[e[1][1]][1][0] == "soaval":
            r, lists = env[e[1][1]][1][1], env[e[1][1]][1][2]
            return app("len", lists[self.soa_leaves(r)[0]]), True
        if k == "mcall" and e[2] == "as_ref" and not e[3]:
            return self.emit(e[1], exp, cx)
        if k == "call" and len(e[1]) == 2 and self.tsubst.get(e[1][0]) == "@T" and e[1][1] == "from" and len(e[3]) == 1:
            self.need(e[3][0], "@T", env, "@T")
            return app("Some", self.val(e[3][0], "@T", cx)), True
        if k == "try":
            if cx is not getattr(self, "stmt_cx", None):
                self.fail("`?` inside a nested expression block")
            ot = self.ty(e[1], None, env)
            if not (isinstance(ot, tuple) and ot[0] == "option"):
                self.fail("`?` on a value of type %s" % (ot,))
            v = self.val(e[1], None, cx)
            t = self.fresh()
            cx.lines.append("TRY %s := %s" % (t, v))
            return t, True
        if k == "call" and len(e[1]) == 2 and self.tsubst.get(e[1][0]) == "@T" and e[1][1] in ("zero", "one") and not e[3]:
            return ("0" if e[1][1] == "zero" else "1"), True
        if k == "call" and e[1] in (["Vec", "with_capacity"], ["Vec", "new"]):
            for a in e[3]:
                self.need(a, "usize", env, "usize")
                self.val(a, "usize", cx)
            return "[]", True
        if k == "call" and len(e[1]) == 2 and e[1][1] == "default" and not e[3] and self.default_struct(e[1][0]) is not None:
            return self.default_elem(self.default_struct(e[1][0])), True
        if k == "call" and len(e[1]) == 2 and e[1][1] in ("default", "new") and not e[3] and self.default_record(e[1][0]) is not None \
                and (e[1][1] == "default" or self.is_default_new(e[1][0])):
            return "(" + ", ".join(self.default_leaves(self.default_record(e[1][0]))) + ")", True
        if k == "mcall" and e[2] == "as_" and not e[3]:
            rt = self.ty(e[1], None, env)
            a = self.val(e[1], None, cx)
            if rt == "@T":
                return "%s mod 2 ^ %d" % (paren(a), INT[exp] if exp in INT else 64), True
            self.needs_w = True
            return "%s mod 2 ^ wT" % paren(a), True
        if k == "mcall" and e[2] == "checked_add" and len(e[3]) == 1 and self.ty(e[1], None, env) in INT:
            rt = self.ty(e[1], None, env)
            self.need(e[3][0], rt, env, rt)
            a, b = self.val(e[1], rt, cx), self.val(e[3][0], rt, cx)
            return app("checked_add", str(INT[rt]), a, b), True
        if k == "mcall" and self.soa_recv(e[1]) is not None:
            r, _ = self.soa_recv(e[1])
            return self.emit_call5(self.method_sig(r[2], r[3], e[2]), e[1], e[3], cx)
        if k == "var" and e[1] == "None" and e[1] not in env:
            if self.ty(e, exp, env) is None:
                self.fail("`None` whose type is not determined by its context")
            return "None", True
        if k == "var" and e[1] in self.cparams and e[1] not in env:
            v = self.cparams[e[1]]
            return (("true" if v else "false") if isinstance(v, bool) else str(v)), True
        if k == "field":
            names = self.chain(e)
            if names is None:
                if self.newtype_field(e, cx.env):
                    return self.emit(e[1], None, cx)
                self.fail("field access on a value")
            r = self.resolve_chain(names)
            if r[0] != "leaf":
                self.fail("struct-valued field `self.%s` used as a value" % ".".join(names))
            if r[1] not in self.path_coq:
                self.fail("internal: path %s not collected" % (r[1],))
            return self.path_coq[r[1]], True
        if k == "index":
            t = self.ty(e[1], None, env) if e[1][0] not in ("path",) and not (e[1][0] == "var" and e[1][1] not in env) else None
            if is_list(t):
                a = self.val(e[1], None, cx)
                self.need(e[2], "usize", env, "usize")
                i = self.val(e[2], "usize", cx)
                return app("idx", a, i), False
            return super().emit(e, exp, cx)
        if k == "path" and len(e[1]) == 2 and e[1][0] in self.tsubst:
            u = self.struct_unit(self.tsubst[e[1][0]])
            if u.cparams != self.cparams:
                u._consts = {}
                u.cparams = self.cparams
            c = u.const(self.tsubst[e[1][0]], e[1][1], self.where)
            return GL.fmt_const(c[1], c[0]), True
        if k == "iflet":
            t = self.need(e, exp, env)
            ot = self.ty(e[2], None, env)
            v = self.val(e[2], None, cx)
            sub = Cx(self, env, cx.depth + 1)
            x = sub.bind(e[1], ot[1])
            st = self.struct_type_of(e[2], env)
            old = self.nominal.get(e[1])
            if st is not None:
                self.nominal[e[1]] = st
            else:
                self.nominal.pop(e[1], None)
            a1 = self.block_val(e[3], t, sub)
            if old is not None:
                self.nominal[e[1]] = old
            else:
                self.nominal.pop(e[1], None)
            a2 = self.block_val(e[4], t, Cx(self, env, cx.depth + 1))
            return "\n".join(["(match %s with" % v, "| Some %s =>" % x] + ["    " + l for a in a1 for l in a.split("\n")] +
                             ["| None =>"] + ["    " + l for a in a2 for l in a.split("\n")] + ["end)"]), False
        if k == "cast" and self.sqrt_pattern(e):
            x = self.sqrt_pattern(e)
            t = self.need(x, None, env)
            if t not in INT:
                self.fail("sqrt of %s" % (t,))
            return app("fsqrt", self.val(x, None, cx)), True
        if k == "call" and len(e[1]) == 1 and self.tuple_struct(e[1][0]) is not None and len(e[3]) == len(self.tuple_struct(e[1][0])):
            ts = self.tuple_struct(e[1][0])
            vs = []
            for a, t_ in zip(e[3], ts):
                self.need(a, t_, env, t_)
                vs.append(self.val(a, t_, cx))
            return "(" + ", ".join(vs) + ")", True
        if k == "mcall" and e[2] == "count" and not e[3] and e[1][0] == "mcall" and e[1][2] == "iter" and not e[1][3] and is_list(self.ty(e[1][1], None, env)):
            return app("len", self.val(e[1][1], None, cx)), True
        if k == "arrayrep":
            t = self.ty(e, exp, env)
            if not is_list(t):
                self.fail("element type of `vec![e; n]`")
            self.need(e[2], "usize", env, "usize")
            nv = self.val(e[2], "usize", cx)
            return "repeat %s (N.to_nat %s)" % (paren(self.val(e[1], t[1], cx)), paren(nv)), True
        if self.map_collect(e, env) is not None:
            L, clo = self.map_collect(e, env)
            tl = self.ty(L, None, env)
            t = self.ty(e, exp, env)
            lv = self.val(L, None, cx)
            sub = Cx(self, env, cx.depth + 1)
            subenv, names = self.closure_env(clo, tl[1], env)
            sub.env = subenv
            for n_ in names:
                sub.env[n_] = (sub.env[n_][0], sub.env[n_][1], sub.depth)
            body = self.block_val(clo[2], t[1], sub)
            pat = ("'(%s)" % ", ".join(sub.env[n_][0] for n_ in names)) if len(names) > 1 else sub.env[names[0]][0]
            return "omapf (fun %s =>\n%s) %s" % (pat, "\n".join("    " + l for b in body for l in b.split("\n")), paren(lv)), False
        if k == "call" and e[1] == ["std", "mem", "size_of"] and len(e[2]) == 1 and not e[3]:
            t = self.sub_t(e[2][0])
            if t == "@T":
                self.needs_w = True
                return "wT / 8", True
            if t in INT:
                return str(INT[t] // 8), True
            self.fail("size_of::<%s>()" % (t,))
        if k == "mcall" and e[2] in ("is_some", "is_none") and not e[3] and isinstance(self.ty(e[1], None, env), tuple) and self.ty(e[1], None, env)[0] == "option":
            a = self.val(e[1], None, cx)
            return "match %s with Some _ => %s | None => %s end" % (a, "true" if e[2] == "is_some" else "false", "false" if e[2] == "is_some" else "true"), True
        if k == "mcall" and e[2] == "trailing_zeros" and not e[3] and self.ty(e[1], None, env) in INT:
            t = self.ty(e[1], None, env)
            return app("tzcnt", str(INT[t]), self.val(e[1], t, cx)), True
        if k == "mcall" and e[2] in ("max", "min") and len(e[3]) == 1 and (self.ty(e[1], None, env) in INT or self.ty(e[3][0], None, env) in INT):
            t = self.ty(e, exp, env)
            self.need(e[1], t, env, t), self.need(e[3][0], t, env, t)
            return app("N.max" if e[2] == "max" else "N.min", self.val(e[1], t, cx), self.val(e[3][0], t, cx)), True
        if k == "mcall" and e[2] == "leading_zeros" and not e[3] and self.ty(e[1], None, env) == "@T":
            self.needs_w = True
            return app("clz", "wT", self.val(e[1], None, cx)), True
        if k == "mcall" and e[2] == "into" and not e[3] and isinstance(exp, tuple) and exp[0] == "record" \
                and self.record_value_type_nested(e[1], env) is not None:
            # x.into() where the target type T is known: T::from(x)
            return self.emit_call5(self.method_sig(exp[1], exp[2], "from"), None, [e[1]], cx)
        if k == "mcall" and e[2] == "collect" and not e[3] and (exp is None or is_list(exp)) and self.collect_source(e, env) is not None:
            return self.emit(self.collect_source(e, env), exp, cx)
        if k == "mcall" and e[2] == "collect" and not e[3] and isinstance(exp, tuple) and exp[0] == "record" and self.collect_source(e, env) is not None:
            # L.iter().copied().collect::<S>() = S::from_iter over the items of L
            src = self.collect_source(e, env)
            sig = self.method_sig(exp[1], exp[2], "from_iter")
            return self.emit_call5(sig, None, [src], cx)
        if k == "mcall" and e[2] == "max" and not e[3] and e[1][0] == "mcall" and e[1][2] == "iter" and not e[1][3] and is_list(self.ty(e[1][1], None, env)):
            # L.iter().max(): the largest element, None on an empty sequence
            return app("max_opt", self.val(e[1][1], None, cx)), True
        if k == "mcall":
            m = e[2]
            if m in ("count_ones", "leading_zeros", "wrapping_mul", "wrapping_add", "wrapping_sub"):
                return super().emit(e, exp, cx)
            st = self.struct_type_of(e[1], env)
            if st is not None and e[1] != ("self",) and self.chain(e[1]) is None:
                return self.emit_call5(self.method_sig(st[0], st[1], m), e[1], e[3], cx)
            rt = self.ty(e[1], None, env)
            if m == "get" and is_list(rt):
                a = self.val(e[1], None, cx)
                self.need(e[3][0], "usize", env, "usize")
                return app("nthN", a, self.val(e[3][0], "usize", cx)), True
            if m == "last" and is_list(rt) and not e[3]:
                return app("last_opt", self.val(e[1], None, cx)), True
            if m == "first" and is_list(rt) and not e[3]:
                return app("head", self.val(e[1], None, cx)), True
            if m == "get_unchecked" and is_list(rt):
                a = self.val(e[1], None, cx)
                self.need(e[3][0], "usize", env, "usize")
                return app("uidx", a, self.val(e[3][0], "usize", cx)), False
            if m == "len" and is_list(rt):
                return app("len", self.val(e[1], None, cx)), True
            if m == "is_empty" and is_list(rt):
                return "%s =? 0" % app("len", self.val(e[1], None, cx)), True
            if m == "unwrap" and isinstance(rt, tuple) and rt[0] == "option":
                return app("ounwrap", self.val(e[1], None, cx)), False
            if m in ("wrapping_shl", "wrapping_shr") and rt in INT:
                a = self.val(e[1], rt, cx)
                self.need(e[3][0], "u32", env, "u32")
                b = self.val(e[3][0], "u32", cx)
                return app("wshl" if m == "wrapping_shl" else "wshr", str(INT[rt]), a, b), True
            sig = self.recv_sig(e, env)
            return self.emit_call5(sig, e[1], e[3], cx)
        if k == "call":
            segs = e[1]
            if segs == ["Some"] and len(e[3]) == 1:
                t = self.need(e, exp, env)
                return app("Some", self.val(e[3][0], t[1], cx)), True
            if segs == ["cast_to_u64_slice"] and len(e[3]) == 1:
                t = self.ty(e[3][0], None, env)
                if t != ("slice", ("slice", "u64")):
                    self.fail("cast_to_u64_slice of %s" % (t,))
                return app("concat", self.val(e[3][0], None, cx)), True
            if (len(segs) == 2 and segs[0] in INT and segs[1] in ("zero", "one")) or segs[-1] == "size_of":
                return super().emit(e, exp, cx)
            sig = self.static_sig(segs)
            mp = getattr(sig, "mutparams", [])
            if mp and sig.ret != "unit":
                # f(&mut a, ..) used for its value: the new values of the `&mut` arguments are bound back to the local
                # variables they name (or dropped when the argument is a temporary), the result is the value
                call, _ = self.emit_call5(sig, None, e[3], cx)
                names = []
                for i in mp:
                    a = e[3][i]
                    while a[0] == "ref":
                        a = a[1]
                    if a[0] == "var" and a[1] in cx.env and cx.env[a[1]][0] is not None and cx.env[a[1]][2] == cx.depth:
                        names.append(cx.env[a[1]][0])
                    else:
                        names.append("_")
                rt = self.norm_ret(sig)
                if isinstance(rt, tuple) and rt[0] == "record":
                    res = [self.fresh() for _ in self.model_leaves(("struct", rt[1]), self.world.unit(rt[2]))]
                    cx.lines.append("let! (%s, (%s)) := %s in" % (", ".join(names), ", ".join(res), call))
                    return "(" + ", ".join(res) + ")", True
                r = self.fresh()
                cx.lines.append("let! (%s, %s) := %s in" % (", ".join(names), r, call))
                return r, True
            return self.emit_call5(sig, None, e[3], cx)
        return super().emit(e, exp, cx)

    def block_val(self, blk, t, cx):
        """lines of the outcome-typed term of a block used as a value of type t"""
        if blk[0] != "block":
            blk = ("block", [], blk)
        fl = ValFlow(t)
        return self.seq(blk[1], blk[2], cx, fl)

    def emit_call5(self, sig, recv, args, cx, allow_mut=False):
        if sig.selfkind == "mut" and not allow_mut:
            self.fail("call of %s (`&mut self`) in an expression" % sig.coq)
        if bool(sig.selfkind) != (recv is not None):
            self.fail("call of %s (receiver kind)" % sig.coq)
        if len(args) != len(sig.params):
            self.fail("call of %s (arity)" % sig.coq)
        fargs = []
        if sig.fields:
            fields = [((p,) if isinstance(p, str) else tuple(p)) for p in sig.fields]
            names = self.chain(recv) if recv is not None else None
            r = None
            if names is not None:
                r = self.resolve_chain(names) if names else ("record", (), self.owner, self.unit.rel)
            soa = self.soa_recv(recv) if recv is not None else None
            rp = None
            x = recv
            while x is not None and (x[0] == "ref" or (x[0] == "un" and x[1] == "*")):
                x = x[1] if x[0] == "ref" else x[2]
            if x is not None and x[0] == "var" and x[1] in cx.env and isinstance(cx.env[x[1]][1], tuple) and cx.env[x[1]][1][0] == "recparam":
                rp = cx.env[x[1]][1][3]
            if rp is not None:
                for p in fields:
                    if len(p) != 1 or p[0] not in rp:
                        self.fail("call of %s on the struct parameter `%s`" % (sig.coq, x[1]))
                    fargs.append(rp[p[0]][0])
            elif r is not None and r[0] == "record":
                for p in fields:
                    if r[1] + p not in self.path_coq:
                        self.fail("internal: path %s not collected" % (r[1] + p,))
                    fargs.append(self.path_coq[r[1] + p])
            elif soa is not None:
                rr, ix = soa
                self.need(ix, "usize", cx.env, "usize")
                iv = self.val(ix, "usize", cx)
                for p in fields:
                    if rr[1] + p not in self.path_coq:
                        self.fail("internal: path %s not collected" % (rr[1] + p,))
                    t = self.fresh()
                    cx.lines.append("let! %s := %s in" % (t, app("idx", self.path_coq[rr[1] + p], iv)))
                    fargs.append(t)
            else:
                if len(fields) != 1 or len(fields[0]) != 1:
                    self.fail("call of %s on a value (the callee uses several fields)" % sig.coq)
                fargs.append(self.val(recv, None, cx))
        vs = []
        rel = getattr(sig, "rel", self.unit.rel)
        for a, (_, pt) in zip(args, sig.params):
            pt = self.norm(pt, rel) if isinstance(pt, tuple) else pt
            if isinstance(pt, tuple) and pt[0] == "record":
                vs += self.record_arg(a, pt, cx)
                continue
            self.need(a, pt, cx.env, pt)
            vs.append(self.val(a, pt, cx))
        if getattr(sig, "wparam", False):
            self.needs_w = True
            fargs = ["wT"] + fargs
        if getattr(sig, "fuel", False):
            self.needs_fuel = True
            fargs = ["fuel"] + fargs
        return app(sig.coq, *(fargs + vs)), False

    def record_arg(self, a, pt, cx):
        """an argument of a several-field struct type: `&self.f` (a struct field of self) or
        `self.f.as_ref().unwrap()` (an optional one): one term per field, in declaration order"""
        x = a
        while x[0] == "ref" or (x[0] == "un" and x[1] == "*"):
            x = x[1] if x[0] == "ref" else x[2]
        opt = False
        if x[0] == "mcall" and x[2] == "unwrap" and not x[3] and x[1][0] == "mcall" and x[1][2] == "as_ref" and not x[1][3]:
            x, opt = x[1][1], True
        if x[0] == "var" and x[1] in cx.env and isinstance(cx.env[x[1]][1], tuple) and cx.env[x[1]][1][0] == "recparam" and not opt:
            if cx.env[x[1]][1][1] != pt[1]:
                self.fail("argument of struct type %s" % pt[1])
            return [ent[0] for ent in cx.env[x[1]][1][3].values()]
        names = self.chain(x) if x[0] == "field" else None
        if not names and not opt:
            # any other expression of that struct type: evaluated, its fields bound to fresh names
            t = self.record_value_type(x, cx.env)
            if t is not None and t[1] == pt[1]:
                v, pure = self.emit(x, t, cx)
                tmp = [self.fresh() for _ in self.leaf_paths(("struct", t[1]), self.world.unit(t[2]))]
                cx.lines.append(("let '(%s) := %s in" if pure else "let! (%s) := %s in") % (", ".join(tmp), v))
                return tmp
        if not names:
            self.fail("argument of struct type %s (only a struct field of self)" % pt[1])
        r = self.resolve_chain(names)
        if r[0] != ("orecord" if opt else "record") or r[2] != pt[1]:
            self.fail("argument of struct type %s" % pt[1])
        out = []
        for pp in self.soa_leaves(r):
            if opt:
                t = self.fresh()
                cx.lines.append("let! %s := %s in" % (t, app("ounwrap", self.path_coq[pp])))
                out.append(t)
            else:
                out.append(self.path_coq[pp])
        return out

    def emit_bin(self, e, exp, cx):
        _, op, A, B = e
        env = cx.env
        tA = None
        try:
            tA = self.ty(A, None, env)
        except Unsupported:
            tA = None
        if tA == "@T" or (op not in ("<<", ">>") and self.ty(B, None, env) == "@T"):
            self.needs_w = True
            if op in ("<<", ">>"):
                a = self.val(A, "@T", cx)
                if B[0] == "lit":
                    b = B[3]
                else:
                    self.need(B, "usize", env, "usize")
                    b = self.val(B, "usize", cx)
                return app("oshr" if op == ">>" else "oshl", "wT", a, b), False
            self.need(A, "@T", env, "@T"), self.need(B, "@T", env, "@T")
            a, b = self.val(A, "@T", cx), self.val(B, "@T", cx)
            if op in ("&", "|", "^"):
                return app({"&": "N.land", "|": "N.lor", "^": "N.lxor"}[op], a, b), True
            if op in GL.CMP:
                s_ = {"==": app("N.eqb", a, b), "!=": app("N.eqb", a, b), "<": app("N.ltb", a, b), "<=": app("N.leb", a, b),
                      ">": app("N.ltb", b, a), ">=": app("N.leb", b, a)}[op]
                return (app("negb", s_) if op == "!=" else s_), True
            self.fail("operator `%s` on the generic element type" % op)
        if op in GL.CMP or op in ("+", "-", "*"):
            t = self.ty(A, None, env) or self.ty(B, None, env)
            if op in ("<", ">") and isinstance(t, tuple) and t[0] == "option" and t[1] in INT:
                self.need(A, t, env, t), self.need(B, t, env, t)
                a, b = self.val(A, t, cx), self.val(B, t, cx)
                return (app("opt_ltb", a, b) if op == "<" else app("opt_ltb", b, a)), True
            if t in SINT:
                self.need(A, t, env, t), self.need(B, t, env, t)
                a, b = self.val(A, t, cx), self.val(B, t, cx)
                if op in GL.CMP:
                    s_ = {"==": app("Z.eqb", a, b), "!=": app("Z.eqb", a, b), "<": app("Z.ltb", a, b), "<=": app("Z.leb", a, b),
                          ">": app("Z.ltb", b, a), ">=": app("Z.leb", b, a)}[op]
                    return (app("negb", s_) if op == "!=" else s_), True
                return app({"+": "ziadd", "-": "zisub", "*": "zimul"}[op], str(SINT[t]), a, b), False
        if op in ("<<", ">>") and B[0] != "lit":
            tb = None
            try:
                tb = self.ty(B, None, env)
            except Unsupported:
                tb = None
            if tb in SINT:
                t = self.need(e, exp, env)
                if t not in INT:
                    self.fail("shift at type %s" % (t,))
                self.need(A, t, env, t)
                a = self.val(A, t, cx)
                b = self.val(B, tb, cx)
                n = self.fresh()
                cx.lines.append("let! %s := zshamt %s in" % (n, paren(b)))
                return app("oshr" if op == ">>" else "oshl", str(INT[t]), a, n), False
        if op in ("&&", "||"):
            env = cx.env
            self.need(A, "bool", env, "bool"), self.need(B, "bool", env, "bool")
            a = self.val(A, "bool", cx)
            sub = Cx(self, env, cx.depth + 1)
            b, pure = self.emit(B, "bool", sub)
            if pure and not sub.lines:
                return app("andb" if op == "&&" else "orb", a, b), True
            lines = sub.lines + [("Val " + paren(b)) if pure else b]
            short = "Val false" if op == "&&" else "Val true"
            body = "\n".join("  " + l for ln in lines for l in ln.split("\n"))
            if op == "&&":
                return "(if %s then\n%s\n else %s)" % (a, body, short), False
            return "(if %s then %s else\n%s)" % (a, short, body), False
        return super().emit_bin(e, exp, cx)

    def const_bool(self, e):
        """value of a condition made of const generic bool parameters (`COMPRESSED`, `!COMPRESSED`), else None"""
        if e[0] == "var" and isinstance(self.cparams.get(e[1]), bool):
            return self.cparams[e[1]]
        if e[0] == "un" and e[1] == "!":
            v = self.const_bool(e[2])
            return None if v is None else (not v)
        return None

    def prune(self, x):
        """the syntax tree with every `if C {A} else {B}` / `C && x` / `C || x` on a const generic bool C replaced by
        the part rustc keeps (the other part is dead code for this monomorphisation); taken `if` statements are
        spliced into the enclosing statement list"""
        if isinstance(x, list):
            out = []
            for y in x:
                y = self.prune(y)
                if isinstance(y, tuple) and y and y[0] == "splice":
                    out += y[1]
                else:
                    out.append(y)
            return out
        if not isinstance(x, tuple) or not x:
            return x
        if x[0] == "block":
            stmts = self.prune(x[1])
            tail = self.prune(x[2]) if x[2] is not None else None
            if isinstance(tail, tuple) and tail and tail[0] == "splice":
                return ("block", stmts + tail[1], tail[2])
            return ("block", stmts, tail)
        if x[0] == "expr" and x[1][0] == "if" and self.const_bool(x[1][1]) is not None:
            taken = x[1][2] if self.const_bool(x[1][1]) else x[1][3]
            if taken is None:
                return ("splice", [], None)
            b = self.prune(taken)
            if b[2] is not None:
                return ("splice", b[1] + [("expr", b[2])] if b[2][0] in ("if", "block") else b[1], None)
            return ("splice", b[1], None)
        if x[0] == "if" and self.const_bool(x[1]) is not None:
            taken = x[2] if self.const_bool(x[1]) else x[3]
            if taken is None:
                return ("block", [], None)
            b = self.prune(taken)
            if not b[1] and b[2] is not None:
                return b[2]
            return ("splice", b[1], b[2]) if False else b
        if x[0] == "bin" and x[1] in ("&&", "||"):
            a, b = self.prune(x[2]), self.prune(x[3])
            for u, v in ((a, b), (b, a)):
                cv = self.const_bool(u)
                if cv is not None:
                    if x[1] == "&&":
                        return v if cv else ("bool", False)
                    return ("bool", True) if cv else v
            return ("bin", x[1], a, b)
        return tuple(self.prune(y) if isinstance(y, (tuple, list)) else y for y in x)

    # ---- statements
    def diverges(self, blk):
        """the block always leaves through return / break"""
        _, stmts, tail = blk
        if tail is not None or not stmts:
            return False
        s = stmts[-1]
        if s[0] in ("return", "break"):
            return True
        if s[0] == "expr" and s[1][0] == "if" and s[1][3] is not None:
            return self.diverges(s[1][2]) and self.diverges(s[1][3])
        return False

    def may_leave(self, x):
        """some return / break occurs in the syntax tree (loops keep their own breaks)"""
        if isinstance(x, tuple) and x:
            if x[0] in ("return", "break"):
                return True
            if x[0] in ("while", "for"):
                return self.has_return(x)
        if isinstance(x, (tuple, list)):
            return any(self.may_leave(y) for y in x)
        return False

    def has_return(self, x):
        if isinstance(x, tuple) and x and x[0] == "return":
            return True
        if isinstance(x, (tuple, list)):
            return any(self.has_return(y) for y in x)
        return False

    def assigned_outer(self, blk, env):
        """variables of env assigned somewhere in the block (not shadowed by a `let` of the block), in order"""
        out = []

        def walk(stmts, declared):
            declared = set(declared)
            for s in stmts:
                if s[0] in ("let", "letdecl"):
                    for n in (s[1] if isinstance(s[1], list) else [s[1]]):
                        declared.add(n)
                    if s[0] == "let":
                        expr(s[3], declared)
                elif s[0] == "assign":
                    tg = s[1][1] if s[1][0] == "index" else s[1]
                    if tg[0] == "var" and tg[1] in env and tg[1] not in declared and isinstance(env[tg[1]][1], tuple) and env[tg[1]][1][0] == "soalocal":
                        for pp in env[tg[1]][1][3]:
                            n = "%s.%s" % (tg[1], ".".join(pp))
                            if n in env and n not in out:
                                out.append(n)
                    elif tg[0] == "var" and tg[1] in env and tg[1] not in declared and isinstance(env[tg[1]][1], tuple) and env[tg[1]][1][0] == "recparam":
                        for f_ in env[tg[1]][1][3]:
                            n = "%s.%s" % (tg[1], f_)
                            if n in env and n not in out:
                                out.append(n)
                    elif tg[0] == "var":
                        n = tg[1]
                        if n not in declared and n in env and n not in out:
                            out.append(n)
                    else:
                        self.fail("assignment target")
                    expr(s[3], declared)
                elif s[0] == "expr":
                    expr(s[1], declared)
                elif s[0] == "call" and s[1][0] == "call":
                    try:
                        sig = self.static_sig(s[1][1])
                    except Unsupported:
                        sig = None
                    for i in (getattr(sig, "mutparams", []) if sig else []):
                        a = s[1][3][i]
                        while a[0] == "ref":
                            a = a[1]
                        if a[0] == "var" and a[1] not in declared and a[1] in env and a[1] not in out:
                            out.append(a[1])
                    expr(s[1][3], declared)
                elif s[0] == "call":
                    tgt = s[1][1]
                    m = s[1][2]
                    if tgt[0] == "slicer" and tgt[1][0] == "var" and m == "copy_from_slice":
                        n = tgt[1][1]
                        if n not in declared and n in env and n not in out:
                            out.append(n)
                    if tgt[0] == "mcall" and tgt[2] == "unwrap" and tgt[1][0] == "mcall" and tgt[1][2] == "last_mut" and tgt[1][1][0] == "var":
                        n = tgt[1][1][1]
                        if n not in declared and n in env and n not in out:
                            out.append(n)
                    if tgt[0] == "var" and tgt[1] in env and tgt[1] not in declared and isinstance(env[tgt[1]][1], tuple) and env[tgt[1]][1][0] == "soalocal" and m == "push":
                        for pp in env[tgt[1]][1][3]:
                            n = "%s.%s" % (tgt[1], ".".join(pp))
                            if n in env and n not in out:
                                out.append(n)
                    if tgt[0] == "var" and tgt[1] in env and tgt[1] not in declared and isinstance(env[tgt[1]][1], tuple) and env[tgt[1]][1][0] == "recparam":
                        for f in env[tgt[1]][1][3]:
                            n = "%s.%s" % (tgt[1], f)
                            if n in env and n not in out:
                                out.append(n)
                    if tgt == ("self",) and self.is_mut:
                        # a call of another `&mut self` method: every field may change
                        for n in env:
                            if n.startswith("self.") and n not in out:
                                out.append(n)
                    if tgt[0] == "index" and tgt[1][0] == "var" and (m == "push" or tgt[1][1] in self.elem_nominal):
                        tgt = tgt[1]
                    if tgt[0] == "var" and (m in ("push", "resize_with", "sort_by_key", "extend", "clear") or tgt[1] in self.elem_nominal):
                        n = tgt[1]
                        if n not in declared and n in env and n not in out and not (isinstance(env[n][1], tuple) and env[n][1][0] in ("soalocal", "recparam")):
                            out.append(n)
                    expr(s[1][3], declared)
                elif s[0] == "while":
                    walk(s[2][1], declared)
                elif s[0] in ("for", "forstep"):
                    walk(s[5][1], declared | {s[1]})
                elif s[0] == "foriter":
                    walk(s[4][1], declared | {s[2]} | ({s[1]} if s[1] else set()))
                elif s[0] == "formut":
                    if s[2][0] == "var" and s[2][1] not in declared and s[2][1] in env and s[2][1] not in out:
                        out.append(s[2][1])
                    walk(s[3][1], declared | {s[1]})

        def expr(e, declared):
            if isinstance(e, tuple) and e:
                if e[0] == "block":
                    walk(e[1], declared)
                    if e[2] is not None:
                        expr(e[2], declared)
                    return
                if e[0] == "if":
                    expr(e[1], declared)
                    expr(e[2], declared)
                    if e[3] is not None:
                        expr(e[3], declared)
                    return
                if e[0] == "iflet":
                    lm = self.last_mut_pattern(e)
                    if lm is not None and lm[0] in env and lm[0] not in declared and lm[0] not in out:
                        out.append(lm[0])
                    expr(e[3], declared | {e[1]})
                    if e[4] is not None:
                        expr(e[4], declared)
                    return
                for x in e:
                    if isinstance(x, (tuple, list)):
                        expr(x, declared)
            elif isinstance(e, list):
                for x in e:
                    expr(x, declared)
        walk(blk[1], set())
        if blk[2] is not None:
            expr(blk[2], set())
        return out

    def tuple_pat(self, names, lam=False):
        if not names:
            return "_" if lam else "tt"
        if len(names) == 1:
            return names[0]
        return ("'(%s)" if lam else "(%s)") % ", ".join(names)

    def seq(self, stmts, tail, cx, flow):
        """seq0 + the early returns of `?`: everything after a `TRY t := e` marker goes into the Some arm"""
        saved = getattr(self, "stmt_cx", None)
        self.stmt_cx = cx
        try:
            lines = self.seq0(stmts, tail, cx, flow)
        finally:
            self.stmt_cx = saved
        out = []
        closers = 0
        flat = []
        for ln in lines:
            flat.append(ln)
        res, depth = [], 0
        for ln in flat:
            if ln.startswith("TRY "):
                t, v = ln[4:].split(" := ", 1)
                none = flow.none_ret(self)
                res.append("  " * depth + "match %s with" % v)
                res.append("  " * depth + "| None => %s" % none)
                res.append("  " * depth + "| Some %s =>" % t)
                depth += 1
            else:
                res += ["  " * depth + l for l in ln.split("\n")]
        while depth > 0:
            depth -= 1
            res.append("  " * depth + "end")
        return res

    def seq0(self, stmts, tail, cx, flow):
        """lines of the outcome-typed term for the statements followed by the end of the block in `flow`"""
        L = cx.lines
        for n, s in enumerate(stmts):
            rest = stmts[n + 1:]
            k = s[0]
            self.cur_let = s[1] if k == "let" and isinstance(s[1], str) else None
            if k == "letdecl":
                cx.env[s[1]] = (None, s[2], cx.depth)
            elif k == "trystmt":
                ot = self.ty(s[1][1], None, cx.env)
                if not (isinstance(ot, tuple) and ot[0] == "option"):
                    self.fail("`?` on a value of type %s" % (ot,))
                v = self.val(s[1][1], None, cx)
                L.append("TRY _ := %s" % v)
            elif k == "let" and isinstance(s[1], str) and s[3] is not None and self.soa_elem_init(s[3]) is not None:
                r, ix = self.soa_elem_init(s[3])
                lists = self.unwrap_osoa(r, cx) if r[0] == "osoa" else {pp: self.path_coq[pp] for pp in self.soa_leaves(r)}
                self.need(ix, "usize", cx.env, "usize")
                iv = self.val(ix, "usize", cx)
                if not re.fullmatch(r"[A-Za-z_][A-Za-z0-9_']*|[0-9]+", iv):
                    nm = self.fresh()
                    L.append("let %s := %s in" % (nm, iv))
                    iv = nm
                first = self.soa_leaves(r)[0]
                L.append("let! _ := %s in" % app("idx", lists[first], iv))
                cx.env[s[1]] = (None, ("soaelem", r, iv, lists), cx.depth)
                self.nominal.pop(s[1], None)
            elif k == "let" and isinstance(s[1], str) and s[3] is not None and self.osoa_unwrap(s[3]) is not None:
                r = self.osoa_unwrap(s[3])
                lists = self.unwrap_osoa(r, cx)
                cx.env[s[1]] = (None, ("soaval", r, lists), cx.depth)
                self.nominal.pop(s[1], None)
            elif k == "let" and isinstance(s[1], str) and s[3] is not None and s[3][0] == "call" and s[3][1] in (["Vec", "with_capacity"], ["Vec", "new"]) \
                    and s[2] is None and not s[3][2] and not self.mentions(s[1], (rest, tail)):
                pass          # a Vec that the code kept for this monomorphisation never touches
            elif k == "let" and isinstance(s[1], str) and s[2] is None and s[3] == ("var", "None") and "None" not in cx.env \
                    and not self.assigns(s[1], (rest, tail)):
                # `let mut x = None;` never assigned in the code kept for this monomorphisation: the constant None
                cx.env[s[1]] = (None, ("noneconst",), cx.depth)
            elif k == "let" and isinstance(s[1], str) and s[3] is not None and s[3][0] == "call" and s[3][1] in (["Vec", "with_capacity"], ["Vec", "new"]) \
                    and ((len(s[3][2]) == 1 and self.soa_local_type(s[3][2][0]) is not None) or
                         (not s[3][2] and s[2] is None and self.pushed_record_type(s[1], (rest, tail)) is not None)):
                # a local Vec of several-field structs: one list per field of the struct
                st = self.soa_local_type(s[3][2][0]) if s[3][2] else self.pushed_record_type(s[1], (rest, tail))
                lists = {}
                for pp, tt in self.model_leaves(("struct", st[1]), self.world.unit(st[2])):
                    cn = "%s_%s" % (s[1], "_".join(pp))
                    while cn in GL.RESERVED or cn in self.sigs_coq or cn in self.field_coq.values():
                        cn += "_"
                    cx.env["%s.%s" % (s[1], ".".join(pp))] = (cn, ("slice", tt), cx.depth)
                    lists[pp] = (cn, ("slice", tt))
                    L.append("let %s := [] in" % cn)
                cx.env[s[1]] = (None, ("soalocal", st[1], st[2], lists), cx.depth)
            elif k == "let" and isinstance(s[1], str) and s[3] is not None and s[3][0] == "call" and s[3][1] == ["Some"] and len(s[3][3]) == 1 \
                    and self.record_value_type_nested(s[3][3][0], cx.env) is not None:
                # let x = Some(S { .. } / S::f(..)): an optional several-field struct: its fields, all present
                t = self.record_value_type_nested(s[3][3][0], cx.env)
                v, pure = self.emit(s[3][3][0], t, cx)
                leaves = self.model_leaves(("struct", t[1]), self.world.unit(t[2]))
                tmp = ["%s_%s" % (s[1], "_".join(pp)) for pp, _ in leaves]
                L.append(("let '(%s) := %s in" if pure else "let! (%s) := %s in") % (", ".join(tmp), v))
                cx.env[s[1]] = (None, ("optrecord", t[1], t[2], tmp), cx.depth)
            elif k == "let" and isinstance(s[1], str) and s[3] is not None and s[3][0] == "range":
                # let r = a..b: a Range value, its two ends as two variables (r.start, r.end)
                t = self.ty(s[3][1], None, cx.env) or self.ty(s[3][2], None, cx.env) or "usize"
                self.need(s[3][1], t, cx.env, t), self.need(s[3][2], t, cx.env, t)
                av, bv = self.val(s[3][1], t, cx), self.val(s[3][2], t, cx)
                lists = {}
                for fnm, v in (("start", av), ("end", bv)):
                    cn = "%s_%s" % (s[1], fnm)
                    while cn in GL.RESERVED or cn in self.sigs_coq or cn in self.field_coq.values():
                        cn += "_"
                    cx.env["%s.%s" % (s[1], fnm)] = (cn, t, cx.depth)
                    lists[fnm] = (cn, t, t, self.unit.rel)
                    L.append("let %s := %s in" % (cn, v))
                cx.env[s[1]] = (None, ("recparam", "Range", self.unit.rel, lists), cx.depth)
            elif k == "let" and isinstance(s[1], str) and s[3] is not None and s[3][0] == "arrayrep" and self.record_value_type_nested(s[3][1], cx.env) is not None:
                # vec![S { .. }; n] of several-field structs: one list per field, each n copies of the field's value
                st = self.record_value_type_nested(s[3][1], cx.env)
                v, pure = self.emit(s[3][1], st, cx)
                leaves = self.model_leaves(("struct", st[1]), self.world.unit(st[2]))
                tmp = [self.fresh() for _ in leaves]
                L.append(("let '(%s) := %s in" if pure else "let! (%s) := %s in") % (", ".join(tmp), v))
                self.need(s[3][2], "usize", cx.env, "usize")
                nv = self.val(s[3][2], "usize", cx)
                lists = {}
                for (pp, tt), tv in zip(leaves, tmp):
                    cn = "%s_%s" % (s[1], "_".join(pp))
                    while cn in GL.RESERVED or cn in self.sigs_coq or cn in self.field_coq.values():
                        cn += "_"
                    cx.env["%s.%s" % (s[1], ".".join(pp))] = (cn, ("slice", tt), cx.depth)
                    lists[pp] = (cn, ("slice", tt))
                    L.append("let %s := repeat %s (N.to_nat %s) in" % (cn, tv, paren(nv)))
                cx.env[s[1]] = (None, ("soalocal", st[1], st[2], lists), cx.depth)
            elif k == "let" and isinstance(s[1], str) and s[3] is not None and self.record_value_type(s[3], cx.env, s[2]) is not None:
                # a local of a several-field struct type: one variable per field
                t = self.record_value_type(s[3], cx.env, s[2])
                v, pure = self.emit(s[3], t, cx)
                self.bind_record(s[1], t, cx, v, pure)
            elif k == "let":
                t = self.let_types(s, cx.env, lambda a, b: None, (rest, tail, flow.exp))
                v, pure = self.emit(s[3], t, cx)
                self.need(s[3], t, cx.env, t)
                if isinstance(s[1], list):
                    names = [cx.bind(a, ta) for a, ta in zip(s[1], t[1])]
                    pat = ("(%s)" if not pure else "'(%s)") % ", ".join(names)
                    for a in s[1]:
                        self.nominal.pop(a, None)
                else:
                    st = self.struct_type_of(s[3], cx.env)
                    pat = cx.bind(s[1], t)
                    if s[3][0] == "call" and s[3][1] in (["Vec", "with_capacity"], ["Vec", "new"]) and len(s[3][2]) == 1 \
                            and isinstance(s[3][2][0], tuple) and s[3][2][0][0] == "struct":
                        nm = s[3][2][0][1]
                        u = self.world.home(self.unit.rel, nm)
                        if u is not None and nm in u.structs5:
                            self.elem_nominal[s[1]] = (nm, u.rel)
                    if st is not None:
                        self.nominal[s[1]] = st
                    else:
                        self.nominal.pop(s[1], None)
                L.append("let%s %s := %s in" % ("" if pure else "!", pat, v))
            elif k == "assign":
                self.cur_rest = rest
                self.assign5(s, cx)
            elif k == "macro":
                self.need(s[2], "bool", cx.env, "bool")
                c = self.val(s[2], "bool", cx)
                L.append("let! _ := %s in" % app("odebug_assert" if s[1] == "debug_assert" else "oassert", c))
            elif k == "return":
                return L + flow.ret(self, s[1], cx)
            elif k == "break":
                return L + flow.brk(self, cx)
            elif k == "formut":
                _, x, lst, body = s
                if not (lst[0] == "var" and lst[1] in cx.env and is_list(cx.env[lst[1]][1])):
                    self.fail("`for x in &mut L` over something else than a local list")
                coq, t, depth = cx.env[lst[1]]
                if depth != cx.depth:
                    self.fail("`for x in &mut %s` from a nested block" % lst[1])
                if self.assigned_outer(body, cx.env):
                    self.fail("`for x in &mut L` whose body assigns variables of the enclosing blocks")
                sub = Cx(self, cx.env, cx.depth + 1)
                xc = sub.bind(x, t[1])
                bl = self.seq(body[1], None, sub, EndFlow([xc], None))
                L.append("\n".join(["let! %s := omap (fun %s =>" % (coq, xc)] + ["    " + l for b in bl for l in b.split("\n")] + ["  ) %s in" % coq]))
            elif k in ("while", "for", "foriter", "forstep"):
                return self.loop(s, rest, tail, cx, flow)
            elif k == "expr" and s[1][0] == "iflet" and self.last_mut_pattern(s[1]) is not None:
                v, x, m, margs = self.last_mut_pattern(s[1])
                if v not in cx.env or v not in self.elem_nominal:
                    self.fail("`last_mut()` of `%s`" % v)
                coq, t, depth = cx.env[v]
                if depth != cx.depth:
                    self.fail("mutation of `%s` from a nested block" % v)
                st = self.elem_nominal[v]
                sig = self.method_sig(st[0], st[1], m)
                if sig.selfkind != "mut" or len(sig.fields) != 1:
                    self.fail("call of `.%s(..)` on the last element of `%s`" % (m, v))
                vs = []
                for a, (_, pt) in zip(margs, sig.params):
                    self.need(a, pt, cx.env, pt)
                    vs.append(self.val(a, pt, cx))
                L.append("let! %s := (match last_opt %s with\n  | Some last_ => let! e_ := %s in Val (set_last %s e_)\n  | None => Val %s\n  end) in"
                         % (coq, coq, app(sig.coq, "last_", *vs), coq, coq))
            elif k == "expr" and s[1][0] == "iflet":
                _, x, oe, th, el = s[1]
                if not self.diverges(th) or (el is not None and self.may_leave(el)):
                    self.fail("`if let` statement whose first arm does not always leave (or whose else arm leaves)")
                ot = self.ty(oe, None, cx.env)
                if not (isinstance(ot, tuple) and ot[0] == "option"):
                    self.fail("`if let Some(..)` on a value of type %s" % (ot,))
                v = self.val(oe, None, cx)
                sub = self.subcx(cx)
                xc = sub.bind(x, ot[1])
                arm1 = self.seq(th[1], th[2], sub, flow)
                sub2 = self.subcx(cx)
                st2 = list(el[1]) if el is not None else []
                arm2 = self.seq(st2 + list(rest), tail, sub2, flow)
                return L + ["match %s with" % v, "| Some %s =>" % xc] + ["    " + l for a in arm1 for l in a.split("\n")] + \
                    ["| None =>"] + ["    " + l for a in arm2 for l in a.split("\n")] + ["end"]
            elif k == "expr" and s[1][0] == "if":
                _, c, th, el = s[1]

                def unit_tail(b):
                    # a unit-valued method call without `;` at the end of an arm is a statement
                    if b is not None and b[0] == "block" and b[2] is not None and b[2][0] == "mcall":
                        return ("block", list(b[1]) + [("call", b[2])], None)
                    return b
                th, el = unit_tail(th), unit_tail(el)
                s = ("expr", ("if", c, th, el))
                d_th, d_el = self.diverges(th), (el is not None and self.diverges(el))
                if d_th or d_el:
                    self.need(c, "bool", cx.env, "bool")
                    cv = self.val(c, "bool", cx)
                    if d_th:
                        arm1 = self.seq(th[1], th[2], self.subcx(cx), flow)
                        if el is not None and d_el:
                            if rest or tail is not None:
                                self.fail("statements after an `if` whose arms both leave")
                            arm2 = self.seq(el[1], el[2], self.subcx(cx), flow)
                        else:
                            sub = self.subcx(cx)
                            st2 = (list(el[1]) if el is not None else [])
                            if el is not None and el[2] is not None:
                                self.fail("`else` block with a value in statement position")
                            if el is not None and any(x[0] in ("let", "letdecl") for x in el[1]):
                                self.fail("`let` in an `else` block that continues after an `if` that leaves")
                            arm2 = self.seq(st2 + list(rest), tail, sub, flow)
                        return L + ["if %s then" % cv] + ["  " + l for a in arm1 for l in a.split("\n")] + ["else"] + \
                            ["  " + l for a in arm2 for l in a.split("\n")]
                    # only the else arm leaves
                    if th[2] is not None or any(x[0] in ("let", "letdecl") for x in th[1]):
                        self.fail("`if` arm that continues with a `let` while the `else` arm leaves")
                    arm1 = self.seq(list(th[1]) + list(rest), tail, self.subcx(cx), flow)
                    arm2 = self.seq(el[1], el[2], self.subcx(cx), flow)
                    return L + ["if %s then" % cv] + ["  " + l for a in arm1 for l in a.split("\n")] + ["else"] + \
                        ["  " + l for a in arm2 for l in a.split("\n")]
                if self.may_leave(th) or (el is not None and self.may_leave(el)):
                    self.fail("`if` statement that leaves (return/break) on some paths only")
                self.cond_assign5(s[1], cx)
            elif k == "call" and s[1][0] == "call":
                self.free_call_stmt(s[1], cx)
            elif k == "call":
                self.call_stmt(s[1], cx)
            elif k == "expr" and s[1][0] == "block":
                # a bare block statement (e.g. kept by #[cfg]): its statements run in place; its `let`s must not
                # shadow anything used later
                b = s[1]
                if b[2] is not None and b[2][0] in ("if", "block", "iflet"):
                    b = ("block", list(b[1]) + [("expr", b[2])], None)
                if b[2] is not None:
                    self.fail("statement-level block with a value")
                if any(x[0] in ("let", "letdecl") and (x[1] if isinstance(x[1], str) else None) in cx.env for x in b[1]):
                    self.fail("statement-level block that shadows a variable")
                return self.seq0(list(b[1]) + list(rest), tail, cx, flow)
            else:
                self.fail("statement `%s`" % k)
        return L + flow.end(self, tail, cx)

    def default_struct(self, name):
        """(struct, rel) when `name` is a one-field struct of this file (Name::default())"""
        u = self.world.home(self.unit.rel, name)
        if u is not None and name in u.structs5 and len(u.struct_fields(name, self.where)) == 1:
            return (name, u.rel)
        return None

    def is_default_new(self, name):
        """`fn new() -> Self { Self::default() }`"""
        u = self.world.home(self.unit.rel, name)
        c = u.fns5.get((name, "new"), []) if u is not None else []
        if len(c) != 1:
            return False
        toks = [t.text for t in u.toks[c[0][0]:c[0][0] + 16]]
        return "".join(toks).startswith("fnnew()->Self{Self::default()}")

    def default_record(self, name):
        """(struct, rel) when `name` is a several-field struct with a derived Default (no `fn default` of its own)"""
        u = self.world.home(self.unit.rel, name)
        if u is None or name not in u.structs5 or len(u.struct_fields(name, self.where)) < 2 or u.fns5.get((name, "default")):
            return None
        return (name, u.rel)

    def default_leaves(self, st):
        out = []
        for _, tt in self.leaf_paths(("struct", st[0]), self.world.unit(st[1])):
            if is_list(tt):
                out.append("[]")
            elif tt in INT or tt == "@T":
                out.append("0")
            elif tt == "bool":
                out.append("false")
            else:
                self.fail("default value of a field of type %s" % (tt,))
        return out

    def record_value_type(self, e, env, ann=None):
        try:
            exp = None
            if ann is not None:
                a2 = self.sub_t(ann)
                exp = self.norm(a2, self.unit.rel) if isinstance(a2, tuple) else a2
            t = self.ty(e, exp, env)
        except Unsupported:
            return None
        if isinstance(t, tuple) and t[0] == "record" and all(len(pp) == 1 for pp, _ in self.leaf_paths(("struct", t[1]), self.world.unit(t[2]))):
            return t
        return None

    def assigns(self, name, x):
        if isinstance(x, tuple) and x and x[0] == "assign":
            tg = x[1]
            while tg[0] in ("index", "field", "un"):
                tg = tg[1] if tg[0] != "un" else tg[2]
            if tg == ("var", name):
                return True
        if isinstance(x, (tuple, list)):
            return any(self.assigns(name, y) for y in x)
        return False

    def pushed_record_type(self, name, x):
        """the several-field struct type of `name.push(S::f(..))` found in x, if any"""
        if isinstance(x, tuple) and len(x) == 4 and x[0] == "mcall" and x[1] == ("var", name) and x[2] == "push" and len(x[3]) == 1 \
                and isinstance(x[3][0], tuple) and x[3][0][0] == "call":
            try:
                sig = self.static_sig(x[3][0][1])
                rt = self.norm_ret(sig)
            except Unsupported:
                return None
            return rt if isinstance(rt, tuple) and rt[0] == "record" else None
        if isinstance(x, (tuple, list)):
            for y in x:
                r = self.pushed_record_type(name, y)
                if r is not None:
                    return r
        return None

    def mentions(self, name, x):
        if isinstance(x, tuple) and len(x) == 2 and x[0] == "var" and x[1] == name:
            return True
        if isinstance(x, (tuple, list)):
            return any(self.mentions(name, y) for y in x)
        return False

    def soa_local_type(self, t):
        t = self.sub_t(t)
        if isinstance(t, tuple) and t[0] == "struct":
            try:
                n = self.norm(t, self.unit.rel)
            except Unsupported:
                return None
            if isinstance(n, tuple) and n[0] == "record":
                return n
        return None

    CALL_HINTS = {
        # a call whose const generic argument rustc infers from the type of the binding it initialises: binding -> subst
        ("src/darray/mod.rs", "new"): {"ones_inventories": {"BIT": True}, "zeroes_inventories": {"BIT": False}},
    }

    HINTS = {
        # types rustc infers through code outside the subset (closures, struct literals built later): local -> type
        ("src/quadwt/huffqwt.rs", "craft_wm_codes"): {"c": ("slice", "u32"), "l": "u32", "m": "usize", "reversed_code": "u32"},
        ("src/binwt/mod.rs", "craft_wm_codes"): {"c": ("slice", "u32"), "l": "u32", "m": "usize", "reversed_code": "u32"},
    }

    def tuple_struct(self, name):
        """field types of `struct Name(T1, T2, ..);` of this file, or None"""
        m = re.search(r"struct\s+%s\s*\(([^)]*)\)\s*;" % re.escape(name), self.unit.src)
        if not m:
            return None
        ts = [x.strip().replace("pub ", "") for x in m.group(1).split(",") if x.strip()]
        if not all(t in INT or t == "bool" for t in ts):
            return None
        return tuple(ts)

    def closure_names(self, pat):
        return [x for x in pat if re.fullmatch(r"[A-Za-z_][A-Za-z0-9_]*", x) and x != "mut"]

    def map_collect(self, e, env):
        """L.iter().map(|pat| body).collect(): (L, closure)"""
        if e[0] == "mcall" and e[2] == "collect" and not e[3] and e[1][0] == "mcall" and e[1][2] == "map" and len(e[1][3]) == 1 \
                and e[1][3][0][0] == "closure" and e[1][1][0] == "mcall" and e[1][1][2] == "iter" and not e[1][1][3]:
            return e[1][1][1], e[1][3][0]
        return None

    def closure_env(self, clo, et, env):
        names = self.closure_names(clo[1])
        sub = dict(env)
        if isinstance(et, tuple) and et[0] == "tuple" and len(names) == len(et[1]):
            for n_, t_ in zip(names, et[1]):
                sub[n_] = (n_ + "_" if n_ in GL.RESERVED else n_, t_, -1)
        elif len(names) == 1:
            sub[names[0]] = (names[0] + "_" if names[0] in GL.RESERVED else names[0], et, -1)
        else:
            self.fail("closure pattern")
        return sub, names

    def collect_source(self, e, env):
        """x.iter().copied().collect() / x.iter().cloned().collect() / x.into_iter().collect(): the list x"""
        r = e[1]
        if r[0] == "mcall" and r[2] in ("copied", "cloned") and not r[3]:
            r = r[1]
        if r[0] == "mcall" and r[2] in ("iter", "into_iter") and not r[3]:
            try:
                if is_list(self.ty(r[1], None, env)):
                    return r[1]
            except Unsupported:
                return None
        return None

    def record_value_type_nested(self, e, env):
        try:
            t = self.ty(e, None, env)
        except Unsupported:
            return None
        return t if isinstance(t, tuple) and t[0] == "record" else None

    def bind_record(self, name, t, cx, v, pure):
        lists, names = {}, []
        raw = dict(self.fields_of(t[1], t[2])[1])
        for pp, tt in self.leaf_paths(("struct", t[1]), self.world.unit(t[2])):
            cn = "%s_%s" % (name, pp[0])
            while cn in GL.RESERVED or cn in self.sigs_coq or cn in self.field_coq.values():
                cn += "_"
            cx.env["%s.%s" % (name, pp[0])] = (cn, tt, cx.depth)
            lists[pp[0]] = (cn, tt, raw.get(pp[0]), t[2])
            names.append(cn)
        cx.env[name] = (None, ("recparam", t[1], t[2], lists), cx.depth)
        self.nominal.pop(name, None)
        if pure:
            cx.lines.append("let '(%s) := %s in" % (", ".join(names), v))
        else:
            cx.lines.append("let! (%s) := %s in" % (", ".join(names), v))

    def default_elem(self, st):
        """Default::default() of a one-field struct whose field is an integer array: the list of its zeros"""
        fl = self.world.unit(st[1]).struct_fields(st[0], self.where)
        if len(fl) == 1 and isinstance(fl[0][1], tuple) and fl[0][1][0] == "array" and fl[0][1][1] in INT:
            return "[" + "; ".join(["0"] * fl[0][1][2]) + "]"
        self.fail("default value of %s" % st[0])

    def last_mut_pattern(self, e):
        """if let Some(x) = v.last_mut() { x.m(args); }  ->  (v, x, m, args)"""
        if e[0] == "iflet" and e[4] is None and e[2][0] == "mcall" and e[2][2] == "last_mut" and not e[2][3] and e[2][1][0] == "var":
            th = e[3]
            if th[2] is None and len(th[1]) == 1 and th[1][0][0] == "call" and th[1][0][1][1] == ("var", e[1]):
                return e[2][1][1], e[1], th[1][0][1][2], th[1][0][1][3]
        return None

    def soa_elem_init(self, e):
        """`&self.v[ix]` with v a slice of several-field structs: (soa, ix)"""
        while e[0] == "ref" or (e[0] == "un" and e[1] == "*"):
            e = e[1] if e[0] == "ref" else e[2]
        if e[0] == "index" and self.soa_chain(e[1]) is not None:
            return self.soa_chain(e[1]), e[2]
        if e[0] == "index" and self.osoa_unwrap(e[1]) is not None:
            return self.osoa_unwrap(e[1]), e[2]
        return None

    def free_call_stmt(self, e, cx):
        """f(a, b);  with f a translated function whose `&mut` parameters are local variables here"""
        _, segs, gens, args = e
        sig = self.static_sig(segs)
        mp = getattr(sig, "mutparams", [])
        if not mp or sig.ret != "unit":
            self.fail("call of `%s` as a statement" % "::".join(segs))
        names = []
        for i in mp:
            a = args[i]
            while a[0] == "ref":
                a = a[1]
            if a[0] != "var" or a[1] not in cx.env or cx.env[a[1]][0] is None:
                self.fail("`&mut` argument of `%s` (only a local variable)" % "::".join(segs))
            if cx.env[a[1]][2] != cx.depth:
                self.fail("call of `%s` mutating `%s` from a nested block" % ("::".join(segs), a[1]))
            names.append(cx.env[a[1]][0])
        call, _ = self.emit_call5(sig, None, args, cx)
        cx.lines.append("let! %s := %s in" % (self.tuple_pat(names), call))

    def call_stmt(self, e, cx):
        """`v.push(x);` on a local Vec, `recv.prefetch_*(args);` (no effect)"""
        _, recv, m, args = e
        if m == "copy_from_slice" and recv[0] == "slicer" and recv[1][0] == "var" and recv[1][1] in cx.env and is_list(cx.env[recv[1][1]][1]) and len(args) == 1:
            # dst[a..b].copy_from_slice(src)
            coq, t, depth = cx.env[recv[1][1]]
            if depth != cx.depth:
                self.fail("copy into `%s` from a nested block" % recv[1][1])
            self.need(recv[2], "usize", cx.env, "usize"), self.need(recv[3], "usize", cx.env, "usize")
            av, bv = self.val(recv[2], "usize", cx), self.val(recv[3], "usize", cx)
            self.need(args[0], t, cx.env)
            sv = self.val(args[0], t, cx)
            cx.lines.append("let! %s := copy_into %s %s %s %s in" % (coq, paren(coq), paren(av), paren(bv), paren(sv)))
            return
        if m == "push" and recv[0] == "var" and recv[1] in cx.env and is_list(cx.env[recv[1]][1]) and len(args) == 1:
            coq, t, depth = cx.env[recv[1]]
            if depth != cx.depth:
                self.fail("push to `%s` from a nested block" % recv[1])
            et = t[1]
            if et == "?":
                self.fail("element type of the Vec `%s`" % recv[1])
            self.need(args[0], et, cx.env, et)
            v = self.val(args[0], et, cx)
            cx.lines.append("let %s := %s ++ [%s] in" % (coq, coq, v))
            return
        if m == "push" and recv[0] == "index" and recv[1][0] == "var" and recv[1][1] in cx.env and len(args) == 1:
            coq, t, depth = cx.env[recv[1][1]]
            if depth != cx.depth:
                self.fail("push to `%s[..]` from a nested block" % recv[1][1])
            if not (is_list(t) and is_list(t[1])):
                self.fail("push to an element of `%s`" % recv[1][1])
            self.need(recv[2], "usize", cx.env, "usize")
            iv = self.val(recv[2], "usize", cx)
            self.need(args[0], t[1][1], cx.env, t[1][1])
            v = self.val(args[0], t[1][1], cx)
            cx.lines.append("let! %s := push_at %s %s %s in" % (coq, paren(coq), paren(iv), paren(v)))
            return
        if m == "clear" and not args and recv[0] == "var" and recv[1] in cx.env and is_list(cx.env[recv[1]][1]):
            coq, t, depth = cx.env[recv[1]]
            if depth != cx.depth:
                self.fail("clear of `%s` from a nested block" % recv[1])
            cx.lines.append("let %s := [] in" % coq)
            return
        if m == "extend" and len(args) == 1 and recv[0] == "var" and recv[1] in cx.env and is_list(cx.env[recv[1]][1]):
            # v.extend(src.iter()) / v.extend(std::iter::repeat(x).take(n)): the items appended in order
            coq, t, depth = cx.env[recv[1]]
            if depth != cx.depth:
                self.fail("extend of `%s` from a nested block" % recv[1])
            a = args[0]
            if a[0] == "mcall" and a[2] in ("iter", "into_iter") and not a[3] and is_list(self.ty(a[1], None, cx.env)):
                if self.ty(a[1], None, cx.env)[1] != t[1]:
                    self.fail("extend of `%s` with elements of another type" % recv[1])
                cx.lines.append("let %s := %s ++ %s in" % (coq, coq, paren(self.val(a[1], None, cx))))
                return
            if a[0] == "mcall" and a[2] == "take" and len(a[3]) == 1 and a[1][0] == "call" and a[1][1] == ["std", "iter", "repeat"] and len(a[1][3]) == 1:
                self.need(a[1][3][0], t[1], cx.env, t[1])
                xv = self.val(a[1][3][0], t[1], cx)
                self.need(a[3][0], "usize", cx.env, "usize")
                nv = self.val(a[3][0], "usize", cx)
                cx.lines.append("let %s := %s ++ repeat %s (N.to_nat %s) in" % (coq, coq, paren(xv), paren(nv)))
                return
            self.fail("`extend` with this source")
        if m == "sort_by_key" and len(args) == 1 and args[0][0] == "closure" and recv[0] == "var" and recv[1] in cx.env and is_list(cx.env[recv[1]][1]):
            # v.sort_by_key(|x| x.k): the stable sort by the k-th component
            coq, t, depth = cx.env[recv[1]]
            clo = args[0]
            names = self.closure_names(clo[1])
            if depth != cx.depth or len(names) != 1 or clo[2][0] != "tfield" or clo[2][1] != ("var", names[0]) \
                    or not (isinstance(t[1], tuple) and t[1][0] == "tuple" and len(t[1][1]) == 2):
                self.fail("`sort_by_key` (only by a component of a vector of pairs)")
            cx.lines.append("let %s := %s %s in" % (coq, "sort_by_fst" if clo[2][2] == 0 else "sort_by_snd", coq))
            return
        if m == "shrink_to_fit" and not args and recv[0] == "var" and recv[1] in cx.env and \
                (is_list(cx.env[recv[1]][1]) or (isinstance(cx.env[recv[1]][1], tuple) and cx.env[recv[1]][1][0] == "soalocal")):
            return
        if m == "push" and recv[0] == "var" and recv[1] in cx.env and isinstance(cx.env[recv[1]][1], tuple) and cx.env[recv[1]][1][0] == "soalocal" and len(args) == 1:
            sl = cx.env[recv[1]][1]
            t = self.record_value_type_nested(args[0], cx.env)
            if t is None or t[1] != sl[1]:
                self.fail("push to `%s` of a value of type %s" % (recv[1], t))
            v, pure = self.emit(args[0], t, cx)
            tmp = [self.fresh() for _ in sl[3]]
            cx.lines.append(("let '(%s) := %s in" if pure else "let! (%s) := %s in") % (", ".join(tmp), v))
            for (pp, (cn, _)), tv in zip(sl[3].items(), tmp):
                if cx.env["%s.%s" % (recv[1], ".".join(pp))][2] != cx.depth:
                    self.fail("push to `%s` from a nested block" % recv[1])
                cx.lines.append("let %s := %s ++ [%s] in" % (cn, cn, tv))
            return
        if recv[0] == "mcall" and recv[2] == "unwrap" and not recv[3] and recv[1][0] == "mcall" and recv[1][2] == "last_mut" \
                and not recv[1][3] and recv[1][1][0] == "var" and recv[1][1][1] in self.elem_nominal and recv[1][1][1] in cx.env:
            # v.last_mut().unwrap().m(args): the last element is replaced by its new value (Fault Panic when v is empty)
            v = recv[1][1][1]
            coq, t, depth = cx.env[v]
            if depth != cx.depth:
                self.fail("mutation of `%s` from a nested block" % v)
            st = self.elem_nominal[v]
            sig = self.method_sig(st[0], st[1], m)
            if sig.selfkind != "mut" or len(sig.fields) != 1:
                self.fail("call of `.%s(..)` on the last element of `%s`" % (m, v))
            vs = []
            for a, (_, pt) in zip(args, sig.params):
                pt = self.norm(pt, getattr(sig, "rel", self.unit.rel)) if isinstance(pt, tuple) else pt
                self.need(a, pt, cx.env, pt)
                vs.append(self.val(a, pt, cx))
            cx.lines.append("let! %s := (match last_opt %s with\n  | Some last_ => let! e_ := %s in Val (set_last %s e_)\n  | None => Fault Panic\n  end) in"
                            % (coq, coq, app(sig.coq, "last_", *vs), coq))
            return
        if recv[0] == "var" and recv[1] in cx.env and isinstance(cx.env[recv[1]][1], tuple) and cx.env[recv[1]][1][0] == "recparam" \
                and ("%s.%s" % (recv[1], next(iter(cx.env[recv[1]][1][3])))) in cx.env:
            rp = cx.env[recv[1]][1]
            sig = self.method_sig(rp[1], rp[2], m)
            if sig.selfkind == "mut":
                if sig.ret != "unit":
                    self.fail("`&mut self` method with a result called as a statement")
                if [tuple(p) if not isinstance(p, str) else (p,) for p in sig.fields] != [(f,) for f in rp[3]]:
                    self.fail("call of `%s.%s(..)` (fields of the callee)" % (recv[1], m))
                call, _ = self.emit_call5(sig, recv, args, cx, allow_mut=True)
                names = []
                for f in rp[3]:
                    coq, t, depth = cx.env["%s.%s" % (recv[1], f)]
                    if depth != cx.depth:
                        self.fail("call of `%s.%s(..)` from a nested block" % (recv[1], m))
                    names.append(coq)
                cx.lines.append("let! %s := %s in" % (self.tuple_pat(names), call))
                return
        if recv == ("self",) and self.is_mut:
            sig = self.method_sig(self.owner, self.unit.rel, m)
            if sig.selfkind == "mut":
                if sig.ret != "unit":
                    self.fail("`&mut self` method with a result called as a statement")
                call, _ = self.emit_call5(sig, recv, args, cx, allow_mut=True)
                names = []
                for pp in self.paths:
                    n = "self." + ".".join(pp)
                    coq, t, depth = cx.env[n]
                    if depth != cx.depth:
                        self.fail("call of `self.%s(..)` from a nested block" % m)
                    names.append(coq)
                cx.lines.append("let! %s := %s in" % (self.tuple_pat(names), call))
                return
        if recv[0] == "index" and recv[1][0] == "var" and recv[1][1] in self.elem_nominal and recv[1][1] in cx.env:
            # v[i].m(args) with m a `&mut self` method of the element struct: the element is replaced by its new value
            v = recv[1][1]
            coq, t, depth = cx.env[v]
            if depth != cx.depth:
                self.fail("mutation of `%s[..]` from a nested block" % v)
            st = self.elem_nominal[v]
            sig = self.method_sig(st[0], st[1], m)
            if sig.selfkind != "mut" or len(sig.fields) != 1:
                self.fail("call of `.%s(..)` on an element of `%s`" % (m, v))
            self.need(recv[2], "usize", cx.env, "usize")
            iv = self.val(recv[2], "usize", cx)
            if not re.fullmatch(r"[A-Za-z_][A-Za-z0-9_']*|[0-9]+", iv):
                nm = self.fresh()
                cx.lines.append("let %s := %s in" % (nm, iv))
                iv = nm
            e0 = self.fresh()
            cx.lines.append("let! %s := %s in" % (e0, app("idx", coq, iv)))
            vs = []
            for a, (_, pt) in zip(args, sig.params):
                self.need(a, pt, cx.env, pt)
                vs.append(self.val(a, pt, cx))
            e1 = self.fresh()
            cx.lines.append("let! %s := %s in" % (e1, app(sig.coq, e0, *vs)))
            cx.lines.append("let %s := %s in" % (coq, app("setN", coq, iv, e1)))
            return
        if m == "resize_with" and recv[0] == "var" and recv[1] in self.elem_nominal and recv[1] in cx.env and len(args) == 2 \
                and args[1] in (("path", ["Default", "default"], []), ("var", "Default::default")):
            coq, t, depth = cx.env[recv[1]]
            if depth != cx.depth:
                self.fail("resize of `%s` from a nested block" % recv[1])
            self.need(args[0], "usize", cx.env, "usize")
            nv = self.val(args[0], "usize", cx)
            cx.lines.append("let %s := %s in" % (coq, app("resize_with", coq, nv, self.default_elem(self.elem_nominal[recv[1]]))))
            return
        if m.startswith("prefetch"):
            soa = self.soa_recv(recv)
            if soa is not None:
                r, ix = soa
                self.need(ix, "usize", cx.env, "usize")
                iv = self.val(ix, "usize", cx)
                first = self.leaf_paths(("struct", r[2]), self.world.unit(r[3]), r[1])[0][0]
                cx.lines.append("let! _ := %s in" % app("idx", self.path_coq[first], iv))
            elif self.chain(recv) is None:
                self.fail("receiver of `.%s()`" % m)
            for a in args:
                t = self.need(a, None, cx.env)
                self.val(a, t, cx)
            return
        self.fail("expression statement `.%s(..)`" % m)

    def subcx(self, cx):
        """context of a block after which nothing of the enclosing block runs: every variable may be assigned"""
        sub = Cx(self, cx.env, cx.depth + 1)
        for n, (coq, t, d) in list(sub.env.items()):
            sub.env[n] = (coq, t, sub.depth)
        return sub

    def assign5(self, s, cx):
        _, lhs, op, rhs = s
        if lhs[0] == "var" and rhs[0] == "range" and op is None and lhs[1] in cx.env and isinstance(cx.env[lhs[1]][1], tuple) \
                and cx.env[lhs[1]][1][0] == "recparam" and cx.env[lhs[1]][1][1] == "Range":
            lists = cx.env[lhs[1]][1][3]
            t = lists["start"][1]
            self.need(rhs[1], t, cx.env, t), self.need(rhs[2], t, cx.env, t)
            av, bv = self.val(rhs[1], t, cx), self.val(rhs[2], t, cx)
            for fnm, v in (("start", av), ("end", bv)):
                if cx.env["%s.%s" % (lhs[1], fnm)][2] != cx.depth:
                    self.fail("assignment to `%s` from a nested block" % lhs[1])
                cx.lines.append("let %s := %s in" % (lists[fnm][0], v))
            return
        if lhs[0] == "index" and lhs[1][0] == "var" and lhs[1][1] in cx.env and isinstance(cx.env[lhs[1][1]][1], tuple) \
                and cx.env[lhs[1][1]][1][0] == "soalocal" and op is None:
            # v[i] = S { .. } on a vector of several-field structs: every list is updated at i (one bounds check)
            sl = cx.env[lhs[1][1]][1]
            t = self.record_value_type_nested(rhs, cx.env)
            if t is None or t[1] != sl[1]:
                self.fail("assignment to `%s[..]` of a value of type %s" % (lhs[1][1], t))
            v, pure = self.emit(rhs, t, cx)
            tmp = [self.fresh() for _ in sl[3]]
            cx.lines.append(("let '(%s) := %s in" if pure else "let! (%s) := %s in") % (", ".join(tmp), v))
            self.need(lhs[2], "usize", cx.env, "usize")
            iv = self.val(lhs[2], "usize", cx)
            if not re.fullmatch(r"[A-Za-z_][A-Za-z0-9_']*|[0-9]+", iv):
                nm = self.fresh()
                cx.lines.append("let %s := %s in" % (nm, iv))
                iv = nm
            first = True
            for (pp, (cn, _)), tv in zip(sl[3].items(), tmp):
                if cx.env["%s.%s" % (lhs[1][1], ".".join(pp))][2] != cx.depth:
                    self.fail("assignment to `%s[..]` from a nested block" % lhs[1][1])
                if first:
                    cx.lines.append("let! _ := %s in" % app("idx", cn, iv))
                    first = False
                cx.lines.append("let %s := %s in" % (cn, app("setN", cn, iv, tv)))
            return
        if lhs[0] == "index" and lhs[1][0] == "var" and lhs[1][1] in cx.env and is_list(cx.env[lhs[1][1]][1]):
            coq, t, depth = cx.env[lhs[1][1]]
            if depth != cx.depth:
                self.fail("assignment to `%s[..]` from a nested block" % lhs[1][1])
            et = t[1]
            # Rust evaluates the right operand of `a[i] op= v` on primitives first, then the place
            self.need(rhs, et, cx.env, et)
            v = self.val(rhs, et, cx)
            self.need(lhs[2], "usize", cx.env, "usize")
            iv = self.val(lhs[2], "usize", cx)
            old = self.fresh()
            cx.lines.append("let! %s := %s in" % (old, app("idx", coq, iv)))
            new = self.val(("bin", op, ("term", old, et), ("term", v, et)), et, cx) if op else v
            cx.lines.append("let %s := %s in" % (coq, app("setN", coq, iv, new)))
            return
        if lhs[0] != "var":
            self.fail("assignment target")
        if lhs[1] not in cx.env:
            self.fail("assignment to unknown `%s`" % lhs[1])
        coq, t, depth = cx.env[lhs[1]]
        if depth != cx.depth:
            self.fail("assignment to `%s` from a nested block" % lhs[1])
        if coq is None:
            # `let x;` initialised here
            if op:
                self.fail("compound assignment to uninitialised `%s`" % lhs[1])
            t = t or self.ty(rhs, None, cx.env)
            if t is None:
                t = self.later_type(lhs[1], (list(getattr(self, "cur_rest", [])), None, None), cx.env)
            if t is None:
                self.fail("`let %s;` whose first assignment has no determined type" % lhs[1])
            v, pure = self.emit(rhs, t, cx)
            self.need(rhs, t, cx.env, t)
            coq = cx.bind(lhs[1], t)
            cx.lines.append("let%s %s := %s in" % ("" if pure else "!", coq, v))
            return
        e = ("bin", op, lhs, rhs) if op else rhs
        self.need(e, t, cx.env, t)
        v, pure = self.emit(e, t, cx)
        cx.lines.append("let%s %s := %s in" % ("" if pure else "!", coq, v))

    def cond_assign5(self, e, cx):
        """`if c { assignments } [else { assignments }]`: the assigned outer variables are rebound to the value
        of (if c then <after the then block> else <after the else block>)"""
        _, c, th, el = e
        if th[2] is not None or (el is not None and el[2] is not None):
            self.fail("`if` statement whose block has a value")
        assigned = self.assigned_outer(th, cx.env)
        if el is not None:
            for n in self.assigned_outer(el, cx.env):
                if n not in assigned:
                    assigned.append(n)
        if not assigned:
            # only assertions (and loops of assertions) inside: a unit-valued conditional
            self.need(c, "bool", cx.env, "bool")
            cv = self.val(c, "bool", cx)
            arms = []
            for blk in (th, el):
                if blk is None:
                    arms.append(["Val tt"])
                    continue
                sub = Cx(self, cx.env, cx.depth + 1)
                arms.append(self.seq(blk[1], None, sub, EndFlow([], None)))
            cx.lines.append("\n".join(["let! _ := (if %s then" % cv] + ["  " + l for a in arms[0] for l in a.split("\n")]
                                      + ["else"] + ["  " + l for a in arms[1] for l in a.split("\n")] + [") in"]))
            return
        for n in assigned:
            if cx.env[n][2] != cx.depth:
                self.fail("assignment to `%s` from a nested block" % n)
            if cx.env[n][0] is None:
                self.fail("conditional first assignment of `let %s;`" % n)
        self.need(c, "bool", cx.env, "bool")
        cv = self.val(c, "bool", cx)
        names = [cx.env[n][0] for n in assigned]
        ts = [cx.env[n][1] for n in assigned]
        arms = []
        for blk in (th, el):
            if blk is None:
                arms.append(["Val " + self.tuple_pat(names)])
                continue
            sub = Cx(self, cx.env, cx.depth + 1)
            for n in assigned:
                sub.env[n] = (cx.env[n][0], cx.env[n][1], sub.depth)
            fl = EndFlow(names, None)
            arms.append(self.seq(blk[1], None, sub, fl))
        pat = self.tuple_pat(names)
        if all(len(a) == 1 and a[0].startswith("Val ") for a in arms):
            cx.lines.append("let %s := if %s then %s else %s in" % (("'" + pat) if len(names) > 1 else pat, cv, arms[0][0][4:], arms[1][0][4:]))
        else:
            cx.lines.append("\n".join(["let! %s := (if %s then" % (pat, cv)] + ["  " + l for a in arms[0] for l in a.split("\n")]
                                      + ["else"] + ["  " + l for a in arms[1] for l in a.split("\n")] + [") in"]))

    def loop(self, s, rest, tail, cx, flow):
        L = cx.lines
        body = s[2] if s[0] == "while" else (s[4] if s[0] == "foriter" else s[5])
        step = None
        if s[0] == "forstep":
            if s[4][0] == "lit":
                step = s[4][1]
            else:
                try:
                    sv = self.val(s[4], "usize", Cx(self, cx.env, cx.depth))     # a named constant
                except Unsupported:
                    sv = ""
                step = int(sv) if re.fullmatch(r"[0-9]+", sv or "") else 0
            if step == 0:
                self.fail("`step_by` with a step that is not a positive constant")
            s = ("for", s[1], s[2], s[3], False, s[5])
        if body[2] is not None:
            self.fail("loop body with a value")
        state = self.assigned_outer(body, cx.env)
        for n in state:
            if cx.env[n][2] != cx.depth:
                self.fail("loop assigning `%s` of an enclosing block from a nested block" % n)
            if cx.env[n][0] is None:
                self.fail("loop assigning uninitialised `%s`" % n)
        names = [cx.env[n][0] for n in state]
        lam = self.tuple_pat(names, lam=True)
        if not names:
            lam = "_"
        if s[0] == "while":
            self.needs_fuel = True
            ccx = Cx(self, cx.env, cx.depth + 1)
            self.need(s[1], "bool", cx.env, "bool")
            cv, pure = self.emit(s[1], "bool", ccx)
            clines = ccx.lines + [("Val " + paren(cv)) if pure else cv]
            head = ["let! r := while_loop (fun %s =>" % lam] + ["    " + l for a in clines for l in a.split("\n")] + ["  ) (fun %s =>" % lam]
            bcx = Cx(self, cx.env, cx.depth + 1)
        elif s[0] == "foriter":
            _, ivar, xvar, lexpr, _ = s
            tl = self.ty(lexpr, None, cx.env)
            if isinstance(tl, tuple) and tl[0] == "record" and tl[1] == "QVector" and ivar is None:
                # for c in qv.iter(): the iterator's `next` is `qv.get(i)` for i = 0, 1, .. until None, and `get` is None
                # exactly from `len()` on (both texts are checked against the source): the symbols at 0 .. len()
                self.check_qv_iter_contract()
                s2 = ("for", "i_", ("lit", 0, None, "0"), ("mcall", lexpr, "len", []), False,
                      ("block", [("let", xvar, None, ("mcall", lexpr, "get_unchecked", [("var", "i_")]))] + list(body[1]), None))
                return self.loop(s2, rest, tail, cx, flow)
            if isinstance(tl, tuple) and tl[0] == "record" and ivar is None:
                return self.loop_over_iterator(s, tl, rest, tail, cx, flow)
            if not is_list(tl):
                self.fail("`for` over a value of type %s" % (tl,))
            lv = self.val(lexpr, None, cx)
            bcx = Cx(self, cx.env, cx.depth + 1)
            est = self.elem_struct(lexpr, cx.env)
            xc = bcx.bind(xvar, tl[1])
            if est is not None:
                self.nominal[xvar] = est
            else:
                self.nominal.pop(xvar, None)
            if ivar is not None:
                ic = bcx.bind(ivar, "usize")
                head = ["let! r := iteri_loop (fun %s %s %s =>" % (ic, xc, lam)]
            else:
                head = ["let! r := iter_loop (fun %s %s =>" % (xc, lam)]
            rev = False
        else:
            x, lo, hi, incl = s[1], s[2], s[3], s[4]
            rev = len(s) > 6 and s[6]
            t = self.ty(lo, None, cx.env) or self.ty(hi, None, cx.env) or self.infer_index_var(x, body) \
                or self.later_type(x, (body[1], None, None), cx.env)
            if t not in INT:
                self.fail("`for %s` whose range type is not determined" % x)
            self.need(lo, t, cx.env, t), self.need(hi, t, cx.env, t)
            lov = self.val(lo, t, cx)
            hiv = self.val(hi, t, cx)
            if incl:
                hiv = "%s + 1" % paren(hiv)
            bcx = Cx(self, cx.env, cx.depth + 1)
            xc = bcx.bind(x, t) if x != "_" else "_"
            head = ["let! r := for_loop (fun %s %s =>" % (xc, lam)]
            if step is not None:
                # (lo..hi).step_by(k): the k-th iteration sees lo + k * step; ceil((hi - lo) / step) iterations
                head = ["let! r := for_loop (fun k_ %s =>" % lam, "    let %s := %s + k_ * %d in" % (xc, paren(lov), step)]
                step_close = "  ) 0 (N.to_nat ((%s - %s + %d) / %d)) %%s in" % (paren(hiv), paren(lov), step - 1, step)
        for n in state:
            bcx.env[n] = (cx.env[n][0], cx.env[n][1], bcx.depth)
        lf = LoopFlow(names, flow)
        blines = self.seq(body[1], None, bcx, lf)
        init = self.tuple_pat(names)
        if s[0] == "while":
            close = "  ) fuel %s in" % init
        elif s[0] == "foriter":
            close = ("  ) 0 %s %s in" if s[1] is not None else "  ) %s %s in") % (paren(lv), init)
        elif rev:
            head[0] = head[0].replace("for_loop ", "for_loop_rev ", 1)
            close = "  ) %s (N.to_nat (%s - %s)) %s in" % (paren(hiv), paren(hiv), paren(lov), init)
        elif step is not None:
            close = step_close % init
        else:
            close = "  ) %s (N.to_nat (%s - %s)) %s in" % (paren(lov), paren(hiv), paren(lov), init)
        out = L + head + ["    " + l for a in blines for l in a.split("\n")] + [close]
        out.append("match r with")
        out.append("| Retd v => %s" % flow.retd("v"))
        out.append("| Done %s =>" % (paren(init) if names else "_"))
        after = Cx(self, cx.env, cx.depth)
        after.lines = []
        restl = self.seq(list(rest), tail, after, flow)
        out += ["    " + l for a in restl for l in a.split("\n")]
        out.append("end")
        return out

    def loop_over_iterator(self, s, tl, rest, tail, cx, flow):
        """for x in it_expr { body } with it_expr of a struct type whose `Iterator::next` (&mut self) is translated:
             let it = it_expr; loop { match it.next() { Some(x) => body, None => break } }
        a while_loop (fuel) over the iterator's fields and the variables the body assigns"""
        _, _, xvar, lexpr, body = s
        L = cx.lines
        sig = self.method_sig(tl[1], tl[2], "next")
        if sig.selfkind != "mut" or sig.params or not (isinstance(sig.ret, tuple) and sig.ret[0] == "option"):
            self.fail("`for` over a %s (no translated `next(&mut self) -> Option<_>`)" % tl[1])
        leaves = self.model_leaves(("struct", tl[1]), self.world.unit(tl[2]))
        if [tuple(p) if not isinstance(p, str) else (p,) for p in sig.fields] != [pp for pp, _ in leaves]:
            self.fail("`for` over a %s (fields of `next`)" % tl[1])
        v, pure = self.emit(lexpr, tl, cx)
        itn = ["it_%s" % "_".join(pp) for pp, _ in leaves]
        L.append(("let '(%s) := %s in" if pure else "let! (%s) := %s in") % (", ".join(itn), v))
        state = self.assigned_outer(body, cx.env)
        for n in state:
            if cx.env[n][2] != cx.depth or cx.env[n][0] is None:
                self.fail("loop assigning `%s` of an enclosing block from a nested block" % n)
        names = [cx.env[n][0] for n in state]
        allnames = itn + names
        lam = self.tuple_pat(allnames, lam=True)
        self.needs_fuel = True
        bcx = Cx(self, cx.env, cx.depth + 1)
        for n in state:
            bcx.env[n] = (cx.env[n][0], cx.env[n][1], bcx.depth)
        xc = bcx.bind(xvar, sig.ret[1])
        lf = LoopFlow(allnames, flow)
        blines = self.seq(body[1], None, bcx, lf)
        call = app(sig.coq, *((["fuel"] if getattr(sig, "fuel", False) else []) + itn))
        out = L + ["let! r := while_loop (fun %s => Val true) (fun %s =>" % (lam, lam),
                   "    let! (%s, o_) := %s in" % (", ".join(itn), call),
                   "    match o_ with",
                   "    | None => Val (Brk %s)" % paren(self.tuple_pat(allnames)),
                   "    | Some %s =>" % xc] + ["        " + l for a in blines for l in a.split("\n")] + \
                  ["    end", "  ) fuel %s in" % self.tuple_pat(allnames), "match r with", "| Retd v => %s" % flow.retd("v"),
                   "| Done %s =>" % paren(self.tuple_pat(allnames))]
        after = Cx(self, cx.env, cx.depth)
        after.lines = []
        restl = self.seq(list(rest), tail, after, flow)
        out += ["    " + l for a in restl for l in a.split("\n")]
        out.append("end")
        return out

    QV_ITER_CONTRACT = {
        ("QVectorIterator", "next"): "{letqv=self.qv.as_ref();self.i+=1;qv.get(self.i-1)}",
        ("QVector", "iter"): "{QVectorIterator{i:0,qv:self}}",
        ("QVector", "get"): "{ifi>=self.position>>1{returnNone;}unsafe{Some(self.get_unchecked(i))}}",
    }

    def check_qv_iter_contract(self):
        u = self.world.unit("src/qvector/mod.rs")
        for (owner, fn), want in self.QV_ITER_CONTRACT.items():
            c = u.fns5.get((owner, fn), [])
            if len(c) != 1:
                self.fail("iteration over a QVector (`%s::%s` not found)" % (owner, fn))
            j = c[0][0]
            while not (u.toks[j].kind == "op" and u.toks[j].text == "{"):
                j += 1
            k2 = match_close(u.toks, j)
            got = "".join(t.text for t in u.toks[j:k2 + 1])
            if got != want:
                self.fail("iteration over a QVector: `%s::%s` is no longer `%s` (found `%s`)" % (owner, fn, want, got))

    def infer_index_var(self, x, body):
        """type of a `for` variable whose range is made of unsuffixed literals: usize when it is used as an index"""
        found = []

        def walk(e):
            if isinstance(e, tuple) and e:
                if e[0] == "index" and e[2] == ("var", x):
                    found.append("usize")
                if e[0] == "mcall" and e[2] == "get_unchecked" and e[3] == [("var", x)]:
                    found.append("usize")
            if isinstance(e, (tuple, list)):
                for y in e:
                    walk(y)
        walk(body)
        return "usize" if found else None

    def translate(self):
        cx = Cx(self, {}, 0)
        ptys, names = [], []
        for pn, pt in self.params:
            nt = self.norm(pt, self.unit.rel) if isinstance(pt, tuple) else pt
            if isinstance(nt, tuple) and nt[0] == "record":
                # a parameter of a struct type with several fields: one parameter per field
                lists = {}
                raw = dict(self.fields_of(nt[1], nt[2])[1])
                for pp, tt in self.leaf_paths(("struct", nt[1]), self.world.unit(nt[2])):
                    if len(pp) != 1:
                        self.fail("parameter `%s` of a nested struct type" % pn)
                    cn = "%s_%s" % (pn, pp[0])
                    lists[pp[0]] = (cn, tt, raw.get(pp[0]), nt[2])
                    ptys.append(tt)
                    names.append(cn)
                cx.env[pn] = (None, ("recparam", nt[1], nt[2], lists), 0)
                self.rec_params[pn] = (nt[1], nt[2], lists)
            else:
                ptys.append(nt)
                names.append(cx.bind(pn, nt))
        rett = self.norm(self.ret, self.unit.rel) if isinstance(self.ret, tuple) else self.ret
        self.ret = rett
        if self.mutparams:
            # a `&mut` parameter the body never writes to is an ordinary argument
            written = self.assigned_outer(self.body, {q: (q, cx.env[q][1] if q in cx.env else None, 0) for q in self.mutparams})
            self.mutparams = [q for q in self.mutparams if q in written]
        if self.is_mut:
            for pp in self.paths:
                cx.env["self." + ".".join(pp)] = (self.path_coq[pp], self.path_ty[pp], 0)
            flow0 = MutFlow(rett, [("self." + ".".join(pp)) for pp in self.paths])
        elif self.mutparams:
            # `&mut` parameters: the function returns their new values (followed by its own result if it has one)
            if any(pn not in cx.env or cx.env[pn][0] is None for pn in self.mutparams):
                self.fail("`&mut` parameter of a struct type")
            flow0 = MutFlow(rett, list(self.mutparams))
        else:
            flow0 = FnFlow(rett)
        if isinstance(flow0, MutFlow) and self.body[2] is not None and self.body[2][0] == "if" and self.body[2][3] is not None \
                and (self.body[2][2][1] or self.body[2][3][1]):
            # a final `if` whose arms update the state before giving the result: each arm ends with `return`
            def rets(b):
                if b[2] is not None and b[2][0] == "if" and b[2][3] is not None:
                    return ("block", list(b[1]) + [("expr", ("if", b[2][1], rets(b[2][2]), rets(b[2][3])))], None)
                if b[2] is None and rett != "unit":
                    self.fail("final `if` arm without a value")
                return ("block", list(b[1]) + [("return", b[2])], None)
            t = self.body[2]
            self.body = ("block", list(self.body[1]) + [("expr", ("if", t[1], rets(t[2]), rets(t[3])))], None)
        lines = self.seq(self.body[1], self.body[2], cx, flow0)
        if "@T" in repr(ptys) or "@T" in repr(rett) or any("@T" in repr(self.path_ty[p]) for p in self.paths):
            self.needs_w = True
        binders = (["(fuel : nat)"] if self.needs_fuel else []) + (["(wT : N)"] if self.needs_w else []) + \
            ["(%s : %s)" % (self.path_coq[p], coq_type5(self.path_ty[p])) for p in self.paths] + \
            ["(%s : %s)" % (n, coq_type5(t)) for n, t in zip(names, ptys)]
        if is_list(rett) and isinstance(rett[1], tuple) and rett[1][0] == "record" and not self.mutparams and not self.is_mut:
            # a vector of several-field structs is returned as one list per field
            rcoq = " * ".join(paren(coq_type5(("slice", tt))) for _, tt in self.model_leaves(("struct", rett[1][1]), self.world.unit(rett[1][2])))
        elif isinstance(rett, tuple) and rett[0] == "record" and not self.mutparams:
            # a struct with several fields is returned as the tuple of its fields, in declaration order
            rcoq = " * ".join(paren(coq_type5(tt)) for _, tt in self.model_leaves(("struct", rett[1]), self.world.unit(rett[2])))
        elif self.is_mut:
            parts = [paren(coq_type5(self.path_ty[pp])) for pp in self.paths] + ([paren(coq_type5(rett))] if rett != "unit" else [])
            rcoq = " * ".join(parts)
        elif self.mutparams:
            if isinstance(rett, tuple) and rett[0] == "record":
                rc = "(" + " * ".join(paren(coq_type5(tt)) for _, tt in self.model_leaves(("struct", rett[1]), self.world.unit(rett[2]))) + ")"
            else:
                rc = paren(coq_type5(rett))
            parts = [paren(coq_type5(cx.env[pn][1])) for pn in self.mutparams] + ([rc] if rett != "unit" else [])
            rcoq = " * ".join(parts)
        else:
            rcoq = coq_type5(rett)
        out = ["(* %s: %s%s *)" % (self.unit.rel, self.header, "   with " + ", ".join("%s = %s" % kv for kv in self.cparams.items()) if self.cparams else ""),
               "Definition %s %s : outcome %s :=" % (self.coq, " ".join(binders), paren(rcoq))]
        text = "\n".join("  " + l for ln in lines for l in ln.split("\n"))
        sparams = []
        for pn, pt in self.params:
            nt = self.norm(pt, self.unit.rel) if isinstance(pt, tuple) else pt
            sparams.append((pn, nt))
        sig = Sig(self.coq, self.selfkind, sparams, rett, list(self.paths))
        sig.fuel, sig.rel, sig.wparam = self.needs_fuel, self.unit.rel, self.needs_w
        sig.mutparams = [i for i, (pn, _) in enumerate(self.params) if pn in self.mutparams]
        return "\n".join(out) + "\n" + text + ".\n", sig


class FnFlow:
    def __init__(self, ret):
        self.exp = ret

    def ret(self, tr, e, cx):
        if e is None:
            tr.fail("`return;`")
        v, pure = tr.emit(e, self.exp, cx)
        tr.need(e, self.exp, cx.env, self.exp)
        return [("Val " + paren(v)) if pure else v]

    def end(self, tr, tail, cx):
        if tail is None:
            tr.fail("function body without a value")
        return self.ret(tr, tail, cx)

    def brk(self, tr, cx):
        tr.fail("`break` outside a loop")

    def retd(self, v):
        return "Val " + v

    def none_ret(self, tr):
        if not (isinstance(self.exp, tuple) and self.exp[0] == "option"):
            tr.fail("`?` in a function that does not return an Option")
        return "Val None"


class MutFlow(FnFlow):
    """a `&mut self` method: leaving it yields the current values of the struct's fields (and its result)"""

    def __init__(self, ret, selfnames):
        self.exp, self.selfnames = ret, selfnames

    def leaves(self, tr, cx):
        return [cx.env[n][0] for n in self.selfnames]

    def ret(self, tr, e, cx):
        if self.exp == "unit":
            if e is not None:
                tr.fail("value returned from a unit method")
            return ["Val (%s)" % ", ".join(self.leaves(tr, cx))] if len(self.selfnames) > 1 else ["Val " + self.leaves(tr, cx)[0]]
        if e is None:
            tr.fail("`return;` in a method with a result")
        v = tr.val(e, self.exp, cx)
        tr.need(e, self.exp, cx.env, self.exp)
        return ["Val (%s)" % ", ".join(self.leaves(tr, cx) + [v])]

    def end(self, tr, tail, cx):
        return self.ret(tr, tail, cx)

    def retd(self, v):
        return "Val " + v


class LoopFlow:
    def __init__(self, names, outer):
        self.names, self.outer, self.exp = names, outer, None
        o = outer
        while o is not None and not isinstance(o, FnFlow):
            o = getattr(o, "outer", None)
        self.fnflow = o

    def state(self, tr):
        return tr.tuple_pat(self.names)

    def ret(self, tr, e, cx):
        if e is None:
            tr.fail("`return;`")
        if self.fnflow is None:
            tr.fail("`return` in a loop inside a conditional assignment / value block")
        if isinstance(self.fnflow, MutFlow):
            # the values of the fields at this point, then the result
            exp = self.fnflow.exp
            if exp == "unit":
                tr.fail("`return` with a value in a unit method")
            v = tr.val(e, exp, cx)
            tr.need(e, exp, cx.env, exp)
            return ["Val (Ret (%s))" % ", ".join(self.fnflow.leaves(tr, cx) + [v])]
        exp = self.fnflow.exp
        v = tr.val(e, exp, cx)
        tr.need(e, exp, cx.env, exp)
        return ["Val (Ret %s)" % paren(v)]

    def end(self, tr, tail, cx):
        if tail is not None:
            tr.fail("loop body with a value")
        return ["Val (Next %s)" % paren(self.state(tr))]

    def brk(self, tr, cx):
        return ["Val (Brk %s)" % paren(self.state(tr))]

    def retd(self, v):
        if isinstance(self.outer, FnFlow):
            return "Val " + v
        return "Val (Ret %s)" % v

    def none_ret(self, tr):
        if self.fnflow is None:
            tr.fail("`?` in a loop inside a conditional assignment / value block")
        self.fnflow.none_ret(tr)
        return "Val (Ret None)"


class ValFlow:
    """end of a block used as a value"""

    def __init__(self, exp):
        self.exp = exp

    def end(self, tr, tail, cx):
        if tail is None:
            tr.fail("block without a value")
        v, pure = tr.emit(tail, self.exp, cx)
        tr.need(tail, self.exp, cx.env, self.exp)
        return [("Val " + paren(v)) if pure else v]

    def ret(self, tr, e, cx):
        tr.fail("`return` inside a block used as a value")

    def brk(self, tr, cx):
        tr.fail("`break` inside a block used as a value")

    def retd(self, v):
        return "Val " + v          # unreachable: a loop here cannot contain `return` (checked), its R is unconstrained

    def none_ret(self, tr):
        tr.fail("`?` inside a block used as a value")


class EndFlow:
    """end of a conditional-assignment arm: the values of the assigned variables"""

    def __init__(self, names, exp):
        self.names, self.exp = names, exp

    def end(self, tr, tail, cx):
        return ["Val " + paren(tr.tuple_pat(self.names))]

    def ret(self, tr, e, cx):
        tr.fail("`return` inside a conditional assignment")

    def brk(self, tr, cx):
        tr.fail("`break` inside a conditional assignment")

    def retd(self, v):
        return "Val " + v          # unreachable: a loop here cannot contain `return` (checked), its R is unconstrained

    def none_ret(self, tr):
        tr.fail("`?` inside a conditional assignment")


def coq_type5(t):
    if t in INT or t == "@T":
        return "N"
    if t in SINT:
        return "Z"
    if t == "bool":
        return "bool"
    if t == "unit":
        return "unit"
    if isinstance(t, tuple) and t[0] == "tuple":
        return " * ".join(paren(coq_type5(x)) for x in t[1])
    if isinstance(t, tuple) and t[0] in ("slice", "array"):
        return "list " + paren(coq_type5(t[1]))
    if isinstance(t, tuple) and t[0] == "option":
        return "option " + paren(coq_type5(t[1]))
    raise Unsupported("type %s in a signature" % (t,))


PREAMBLE = """(* GENERATED by tools/gen_fns.py from the Rust sources. Do not edit.
   One definition per function, translated statement by statement (loops through Base/Loops.v) with the Rust
   semantics at the inferred machine width (see the docstrings of gen_fns.py / gen_leaves.py for the trusted
   subset).  Proofs/Fns*Ok.v proves each of them equal to the hand-written model. *)
From QwtModel Require Import ListX Loops SelTable Words%s.
"""


BV_GROUP_COQ = {"g_get_bit_slice", "g_get_bits_slice"}     # BitVectorMut::get_bit_slice belongs to the BitVector accessors (group bv)


WTNEW_COQ = ("g_wt_new", "g_wt_from_iter", "g_wt_from_vec", "g_wt_iter", "g_hwt_iter")
QWTNEW_COQ = ("g_qwt256_new", "g_qwt512_new", "g_qwt256_from_vec", "g_qwt512_from_vec", "g_qwt256_from_iter", "g_qwt512_from_iter", "g_qwt256_iter", "g_qwt512_iter",
              "g_qwt256_rank_prefetch_unchecked", "g_qwt256_rank_prefetch", "g_qwt512_rank_prefetch_unchecked", "g_qwt512_rank_prefetch")


ITER_CTORS = {"g_bv_ones", "g_bv_ones_with_pos", "g_bv_zeros", "g_bv_zeros_with_pos", "g_bv_iter",
              "g_bvm_ones", "g_bvm_ones_with_pos", "g_bvm_zeros", "g_bvm_zeros_with_pos", "g_bvm_iter"}


BVNEW_COQ = {"g_bvm_extend_bools", "g_bvm_extend_positions", "g_bvm_from_bools", "g_bvm_from_positions", "g_bv_from_bools"}


def in_group(group, owners_g, owner, coq):
    if coq in ITER_CTORS:
        return group == "iters"
    if coq in BVNEW_COQ:
        return group == "bvnew"
    if coq == "g_qvit_next":
        return group == "qvb"
    if group == "danew":
        return coq in ("g_da_flush_block", "g_inv1_new", "g_inv0_new", "g_da1_new", "g_da0_new", "g_da1_from_bools", "g_da0_from_bools")
    if group == "da":
        return coq not in ("g_da_flush_block", "g_inv1_new", "g_inv0_new", "g_da1_new", "g_da0_new", "g_da1_from_bools", "g_da0_from_bools")
    if group == "craft":
        return coq == "g_craft_wm_codes4"
    if group == "craft2":
        return coq == "g_craft_wm_codes2"
    if group == "hqwt":
        return coq != "g_craft_wm_codes4"
    if group == "qwt":
        return coq not in QWTNEW_COQ
    if group == "wt":
        return coq not in WTNEW_COQ and coq != "g_craft_wm_codes2"
    if owners_g is None:
        return True
    if group == "bv":
        return (owner in ("DataLine", "BitVector") and coq != "g_bline_set_symbol") or coq in BV_GROUP_COQ
    if group == "wtnew":
        return coq in WTNEW_COQ
    if group == "wt":
        return coq not in WTNEW_COQ and coq != "g_craft_wm_codes2"
    if group == "qwtnew":
        return coq in QWTNEW_COQ
    if group == "qwt":
        return coq not in QWTNEW_COQ
    if group == "qvb":
        return owner == "QVectorBuilder" or coq == "g_qv_from_iter"
    if group == "qv2":
        return owner in ("QVector", "DataLine") and coq != "g_qv_from_iter"
    if group == "bvm":
        return (owner == "BitVectorMut" and coq not in BV_GROUP_COQ) or coq == "g_bline_set_symbol"
    return owner in owners_g


def generate(repo, group, count=None):
    world = World(repo)
    rel_g, owners_g = GROUPS[group]
    out = [PREAMBLE % "".join(" " + m for m in GROUP_IMPORTS[group])]
    count = [0] if count is None else count
    for n, (rel, owner, fname, coq, subst) in enumerate(TARGETS):
        unit = world.unit(rel)
        try:
            if n < T5_START:
                # a T3 leaf: translated by the T3 translator, only its signature is needed here
                if unit.cparams:
                    unit._consts = {}
                unit.cparams = {}
                text, sig = FnTranslator(unit, owner, fname, coq, subst, {k: v for k, v in world.sigs.items() if not getattr(v, "t5", False)}).translate()
                sig.fields = list(sig.fields)
                sig.rel = rel
                world.sigs.setdefault((rel, owner, fname), sig)
                continue
            if subst.get("__t3__"):
                # a `&mut self` method of a one-field struct: T3's translator (the new value of the field is the result)
                if unit.cparams:
                    unit._consts = {}
                unit.cparams = {}
                unit.items["fn"] = {k: [i for i, _ in v] for k, v in unit.fns5.items()}
                text, sig = FnTranslator(unit, owner, fname, coq, {}, {k: v for k, v in world.sigs.items() if not getattr(v, "t5", False)}).translate()
                sig.fields = list(sig.fields)
                sig.rel = rel
                subst = {}
            else:
                text, sig = FnT5(world, unit, owner, fname, coq, subst).translate()
                sig.t5 = True
        except Unsupported:
            if n >= T5_START and (rel != rel_g or not in_group(group, owners_g, owner, coq)):
                # a function of another group failed: only this group's callers of it are affected
                continue
            raise
        except Exception as e:
            if n >= T5_START and (rel != rel_g or not in_group(group, owners_g, owner, coq)):
                continue
            raise Unsupported("%s: fn %s: unsupported construct (internal translator error: %r)" % (rel, fname, e))
        key = (rel, owner, fname.split("@")[0].split("::")[-1])
        if subst:
            world.monosigs.setdefault(key, []).append((dict(subst), sig))
        else:
            world.sigs.setdefault(key, sig)
        if rel == rel_g and in_group(group, owners_g, owner, coq):
            count[0] += 1
            out.append(text)
    return "\n".join(out)


def main():
    here = os.path.dirname(os.path.abspath(__file__))
    ap = argparse.ArgumentParser(description=__doc__.split("\n")[0])
    ap.add_argument("--repo", default=os.environ.get("QWT_REPO", "/repo"))
    ap.add_argument("--group", choices=sorted(GROUPS), required=True)
    ap.add_argument("--out", default=None)
    a = ap.parse_args()
    outp = a.out or os.path.join(here, "..", "coq", "theories", "Gen", "Fns%s.v" % a.group.capitalize())
    t0 = time.time()
    try:
        count = [0]
        text = generate(a.repo, a.group, count)
    except Unsupported as e:
        sys.stderr.write("gen_fns: BROKEN OBLIGATION: %s\n" % e)
        return 2
    old = open(outp).read() if os.path.exists(outp) else None
    if old != text:
        with open(outp, "w") as f:
            f.write(text)
    print("gen_fns: %d functions -> %s (%s, %.2fs)" % (count[0], os.path.normpath(outp), "unchanged" if old == text else "written", time.time() - t0))
    return 0


if __name__ == "__main__":
    sys.exit(main())
